#!/bin/sh
# usage: check.sh <ID> <quick|thorough> [--replay file]
# Thin wrapper: fixes the Go environment (offline; toolchain auto-switch must
# stay enabled, see DESIGN.md section 2), builds the driver and runs it.
set -u
VERIF_DIR=$(cd "$(dirname "$0")" && pwd)
export VERIF_DIR
export GOPROXY=off GOFLAGS=-mod=mod
unset GOTOOLCHAIN GOSUMDB 2>/dev/null || true
mkdir -p "$VERIF_DIR/bin"
( cd "$VERIF_DIR/h" && go build -o "$VERIF_DIR/bin/verif" ./cmd/verif ) || { echo "INFRA: cannot build driver" >&2; exit 2; }
exec "$VERIF_DIR/bin/verif" "$@"

// Package act is the tiny helper that generated grammars' semantic actions
// call: it makes reductions, their order, their arguments and $Context
// observable without any hook in gocc.
package act

import "errors"

type Call struct {
	Tag  string
	Args []any
}

type Node struct {
	Tag  string
	Args []any
}

// Ctx is stored in parser.Context and reaches actions as $Context.
type Ctx struct {
	Log    []Call
	FailAt int   // index of the call that returns Err (-1: none)
	Err    error // the injected error
	Guard  int   // panic when more than Guard calls were made (0: off)
	// Hook, when set, runs inside the HookAt-th action call (before it returns):
	// used to have a second parser object at work while this parse is under way.
	Hook   func()
	HookAt int
	// Second: the context object a hook may install in the parser (its calls
	// are appended to the observation after this one's).
	Second *Ctx
}

var ErrInjected = errors.New("injected action failure")

type GuardPanic struct{}

func NewCtx() *Ctx { return &Ctx{FailAt: -1, Err: ErrInjected} }

// N records the call and returns a tree node.
func N(ctx any, tag string, args ...any) (any, error) {
	c, ok := ctx.(*Ctx)
	if !ok {
		panic("act.N: $Context is not the object stored in parser.Context")
	}
	k := len(c.Log)
	c.Log = append(c.Log, Call{Tag: tag, Args: append([]any{}, args...)})
	if c.Guard > 0 && len(c.Log) > c.Guard {
		panic(GuardPanic{})
	}
	if c.Hook != nil && k == c.HookAt {
		c.Hook()
	}
	if k == c.FailAt {
		return nil, c.Err
	}
	return &Node{Tag: tag, Args: append([]any{}, args...)}, nil
}

// Package subj defines the neutral interface behind which every generated
// lexer/parser of a batch is wrapped by its glue code, and the registry the
// glue packages register themselves in.
package subj

import (
	"fmt"
	"hash/fnv"
	"io"
	"sort"
	"strings"

	"verif.local/h/act"
)

// Tok is a token as returned by a generated lexer.
type Tok struct {
	Type int
	Lit  []byte
	Off  int
	Line int
	Col  int
	// Ctx: Pos.Context is the context object the harness stored in the lexer
	Ctx bool
	// Aux: what the generated helper methods of the token package say about
	// this token (IDValue, Int64Value, UTF8Rune, Pos.String, TokenString, …)
	Aux string
}

type TokMap interface {
	Id(t int) string
	Type(name string) int
}

type Lexer interface {
	TokMap
	// Scan makes a fresh lexer on src and calls Scan n times.
	Scan(src []byte, n int) []Tok
	// ScanReset makes a fresh lexer, scans k tokens, calls Reset, scans n tokens.
	ScanReset(src []byte, k, n int) (before, after []Tok)
}

// PTok is a token handed to a generated parser through the Scanner interface.
type PTok struct {
	Type int
	Lit  string
}

// Val is the neutral form of an attribute value.
type Val struct {
	Kind  string  `json:"k"`             // nil | tok | node | err | other
	Tok   int     `json:"tok,omitempty"` // index of the token in the scanner's hand-out order (-2: unknown object)
	Lit   string  `json:"lit,omitempty"` // tok: the token's literal as it is when the parse has ended
	Tag   string  `json:"tag,omitempty"`
	Args  []Val   `json:"args,omitempty"`
	Err   *ErrVal `json:"err,omitempty"`
	Other string  `json:"other,omitempty"`
	// Dg: structural fingerprint computed bottom-up when the value is built
	// (0: not computed). Lets values nested thousands of levels deep be compared
	// in constant time.
	Dg uint64 `json:"-"`
}

type ErrVal struct {
	HasErr     bool     `json:"has_err"`      // Err field non-nil
	IsInjected bool     `json:"is_injected"`  // Err == act.ErrInjected
	ErrTok     int      `json:"err_tok"`      // index of ErrorToken (-1 nil, -2 unknown object)
	ErrTokType int      `json:"err_tok_type"` // its Type
	ErrTokLit  string   `json:"err_tok_lit"`
	Symbols    []Val    `json:"symbols"`
	Expected   []string `json:"expected"`
	StackTop   int      `json:"stack_top"`
	// ExpectedAlt (reference side only): the sorted terminal sets the expected
	// list may equal — the action row of the state the error occurred in, or
	// that of the recovery state
	ExpectedAlt [][]string `json:"expected_alt,omitempty"`
}

type CallVal struct {
	Tag  string `json:"tag"`
	Args []Val  `json:"args"`
}

type ParseObs struct {
	Panic     string    `json:"panic,omitempty"`
	Guard     bool      `json:"guard,omitempty"` // step guard tripped (loop)
	ErrNil    bool      `json:"err_nil"`
	Err       *ErrVal   `json:"err,omitempty"`
	ErrOther  string    `json:"err_other,omitempty"`
	ErrString string    `json:"err_string,omitempty"`
	Result    Val       `json:"result"`
	Log       []CallVal `json:"log"`
	ScanCalls int       `json:"scan_calls"`
	// TokenModified: index of the first token object whose literal no longer
	// is what the scanner handed out (-1: none) when the parse (and the
	// rendering of its error) has ended
	TokenModified int   `json:"token_modified"`
	LogLenAtScan  []int `json:"log_len_at_scan"`
}

// SourceObs is what is seen of parser.Parse(lexer.NewLexer(src)): the generated
// lexer and parser working together on a caller-owned byte slice.
type SourceObs struct {
	Supported  bool   `json:"supported"` // the grammar has both a lexer and a parser
	Panic      string `json:"panic,omitempty"`
	Guard      bool   `json:"guard,omitempty"`
	ErrNil     bool   `json:"err_nil"`
	ErrString  string `json:"err_string,omitempty"`
	ErrTokType int    `json:"err_tok_type"`
	ErrTokOff  int    `json:"err_tok_off"`
	ErrTokLit  string `json:"err_tok_lit,omitempty"`
	Result     string `json:"result"` // digest of the attribute
	Scans      int    `json:"scans"`
	Calls      int    `json:"calls"`
}

func (o SourceObs) Key() string {
	return fmt.Sprintf("panic=%v guard=%v errnil=%v errtok=%d@%d %q result=%s scans=%d calls=%d msg=%q", o.Panic != "", o.Guard, o.ErrNil, o.ErrTokType, o.ErrTokOff, o.ErrTokLit, o.Result, o.Scans, o.Calls, o.ErrString)
}

// Session wraps one generated Parser object; successive Parse calls reuse it.
type Session interface {
	// ParseSource runs the generated lexer over src and the parser over the
	// lexer, and renders the error, if any.
	ParseSource(src []byte) SourceObs
	// Parse feeds toks (then end-of-input tokens forever) to the parser.
	// failAt >= 0 makes the failAt-th action call return an error.
	Parse(toks []PTok, failAt int, renderErr bool) ParseObs
	// ParseNested is Parse(toks, -1, false) during which, inside the nestAt-th
	// action call, ANOTHER parser object of the same package parses inner
	// completely. The observation is that of the outer parse only.
	ParseNested(toks []PTok, nestAt int, inner []PTok) ParseObs
	// ParseSwitchCtx is Parse(toks, -1, false) during which, inside the k-th
	// action call, the parser's Context field is replaced by a second context
	// object. The observation's Log is the calls of both contexts in order;
	// inSecond is how many of them the second object received.
	ParseSwitchCtx(toks []PTok, k int) (obs ParseObs, inSecond int)
}

type Parser interface {
	TokMap
	NewSession() Session
}

type Subject struct {
	Index  int
	Lexer  Lexer
	Parser Parser
	// Variants built from the same grammar with other flags (C12).
	LexVariants   map[string]Lexer
	ParseVariants map[string]Parser
}

var Registry = map[int]*Subject{}

func get(i int) *Subject {
	s, ok := Registry[i]
	if !ok {
		s = &Subject{Index: i, LexVariants: map[string]Lexer{}, ParseVariants: map[string]Parser{}}
		Registry[i] = s
	}
	return s
}

func RegisterLexer(i int, variant string, l Lexer) {
	if variant == "" {
		get(i).Lexer = l
	} else {
		get(i).LexVariants[variant] = l
	}
}

func RegisterParser(i int, variant string, p Parser) {
	if variant == "" {
		get(i).Parser = p
	} else {
		get(i).ParseVariants[variant] = p
	}
}

func Indices() []int {
	var out []int
	for i := range Registry {
		out = append(out, i)
	}
	sort.Ints(out)
	return out
}

// TokenNames lists Id(0), Id(1), … up to the first "unknown".
func TokenNames(m TokMap) []string {
	var out []string
	for i := 0; i < 10000; i++ {
		n := m.Id(i)
		// Id answers "unknown" beyond the last terminal — unless a terminal is
		// really spelled that way, in which case Type maps the name back to i
		if n == "unknown" && m.Type("unknown") != i {
			break
		}
		out = append(out, n)
	}
	return out
}

func (v Val) String() string {
	switch v.Kind {
	case "nil":
		return "nil"
	case "tok":
		return fmt.Sprintf("tok#%d", v.Tok)
	case "node":
		var a []string
		for _, x := range v.Args {
			a = append(a, x.String())
		}
		return v.Tag + "(" + strings.Join(a, ",") + ")"
	case "err":
		var a []string
		for _, x := range v.Err.Symbols {
			a = append(a, x.String())
		}
		return fmt.Sprintf("err{tok#%d syms[%s]}", v.Err.ErrTok, strings.Join(a, ","))
	}
	return "other:" + v.Other
}

func (v Val) Equal(w Val) bool { return v.String() == w.String() }

// DeepString additionally renders the parts of error attributes that String
// leaves out (expected tokens, token type and literal); used by the purely
// differential checks, where both sides come from generated code.
func (v Val) DeepString() string {
	switch v.Kind {
	case "node":
		var a []string
		for _, x := range v.Args {
			a = append(a, x.DeepString())
		}
		return v.Tag + "(" + strings.Join(a, ",") + ")"
	case "tok":
		return fmt.Sprintf("tok#%d%q", v.Tok, v.Lit)
	case "err":
		var a []string
		for _, x := range v.Err.Symbols {
			a = append(a, x.DeepString())
		}
		return fmt.Sprintf("err{tok#%d type%d %q haserr=%v expected=%q syms[%s]}", v.Err.ErrTok, v.Err.ErrTokType, v.Err.ErrTokLit, v.Err.HasErr, v.Err.Expected, strings.Join(a, ","))
	}
	return v.String()
}

// Neutral converts the parts of a value that need no generated types; glue
// supplies conv for *token.Token and *errors.Error.
func Neutral(x any, conv func(any) (Val, bool)) Val { return neutral(x, conv, 0) }

// NeutralDepth is for glue code that converts nested values itself.
func NeutralDepth(x any, conv func(any) (Val, bool), depth int) Val { return neutral(x, conv, depth) }

func neutral(x any, conv func(any) (Val, bool), depth int) Val {
	if depth > 300 {
		// attribute values are finite trees; this deep means a value contains itself
		return Val{Kind: "other", Other: "<cyclic or absurdly deep attribute value>"}
	}
	if x == nil {
		return Val{Kind: "nil"}.Sealed()
	}
	if v, ok := conv(x); ok {
		if v.Dg == 0 {
			v = v.Sealed()
		}
		return v
	}
	switch n := x.(type) {
	case *act.Node:
		if n == nil {
			return Val{Kind: "nil"}.Sealed()
		}
		v := Val{Kind: "node", Tag: n.Tag}
		for _, a := range n.Args {
			v.Args = append(v.Args, neutral(a, conv, depth+1))
		}
		return v.Sealed()
	}
	return Val{Kind: "other", Other: fmt.Sprintf("%T:%v", x, x)}.Sealed()
}

// Digest is a structural fingerprint of the value including everything
// DeepString shows. Values built by Neutral carry it precomputed.
func (v Val) Digest() string {
	if v.Dg == 0 {
		v = v.Sealed()
	}
	return fmt.Sprintf("%016x", v.Dg)
}

// Sealed returns v with Dg computed from its own fields and the Dg of its
// children (which are sealed first if they are not yet).
func (v Val) Sealed() Val {
	h := fnv.New64a()
	io.WriteString(h, v.Kind)
	h.Write([]byte{0})
	child := func(a *Val) {
		if a.Dg == 0 {
			*a = a.Sealed()
		}
		fmt.Fprintf(h, "%016x", a.Dg)
	}
	switch v.Kind {
	case "tok":
		fmt.Fprintf(h, "%d\x00%s\x00", v.Tok, v.Lit)
	case "node":
		io.WriteString(h, v.Tag)
		fmt.Fprintf(h, "\x00%d\x00", len(v.Args))
		for i := range v.Args {
			child(&v.Args[i])
		}
	case "err":
		fmt.Fprintf(h, "%d\x00%d\x00%s\x00%v\x00%q\x00%d\x00", v.Err.ErrTok, v.Err.ErrTokType, v.Err.ErrTokLit, v.Err.HasErr, v.Err.Expected, len(v.Err.Symbols))
		for i := range v.Err.Symbols {
			child(&v.Err.Symbols[i])
		}
	case "other":
		io.WriteString(h, v.Other)
	}
	v.Dg = h.Sum64() | 1
	return v
}

// Short renders the value like DeepString but cuts nesting below depth levels
// (for messages: the full structure is in the replay file).
func (v Val) Short(depth int) string {
	if depth <= 0 {
		return "…"
	}
	switch v.Kind {
	case "node":
		var a []string
		for _, x := range v.Args {
			a = append(a, x.Short(depth-1))
		}
		return v.Tag + "(" + strings.Join(a, ",") + ")"
	case "tok":
		return fmt.Sprintf("tok#%d%q", v.Tok, v.Lit)
	case "err":
		var a []string
		for _, x := range v.Err.Symbols {
			a = append(a, x.Short(depth-1))
		}
		return fmt.Sprintf("err{tok#%d type%d %q expected=%q syms[%s]}", v.Err.ErrTok, v.Err.ErrTokType, v.Err.ErrTokLit, v.Err.Expected, strings.Join(a, ","))
	}
	return v.String()
}

// Package batch builds one test binary for a whole corpus of grammars: gocc is
// run on each grammar, glue code is written, and everything is compiled once.
package batch

import (
	"encoding/json"
	"fmt"
	"os"
	"os/exec"
	"path/filepath"
	"regexp"
	"sort"
	"strconv"
	"strings"
	"sync"

	"verif.local/h/ex"
	"verif.local/h/glue"
	"verif.local/h/gr"
)

// Item is one grammar of the corpus.
type Item struct {
	Index     int                 `json:"index"`
	G         *gr.Grammar         `json:"g"`
	Flags     []string            `json:"flags"`    // flags of the base build
	Variants  map[string][]string `json:"variants"` // other flag sets built side by side
	HasLexer  bool                `json:"has_lexer"`
	HasParser bool                `json:"has_parser"`
	Kind      string              `json:"kind,omitempty"`
	// filled by Build
	Dropped   string `json:"dropped,omitempty"` // reason this grammar is not in the binary
	GoccExit  int    `json:"gocc_exit"`
	GoccOut   string `json:"gocc_out,omitempty"`
	Conflicts int    `json:"conflicts"` // N of "N LR-1 conflicts" (-1: not announced)
}

type Batch struct {
	Dir    string
	Items  []*Item
	Binary string
	Log    []string
}

func suffix(variant string) string {
	if variant == "" {
		return ""
	}
	return "_" + variant
}

var conflictRe = regexp.MustCompile(`(?m)^(\d+) LR-1 conflicts`)

// Build creates the batch in dir (which must not exist or be empty).
// harnessDir is the path of module verif.local/h.
func Build(env *ex.Env, dir, harnessDir string, items []*Item, race bool) (*Batch, error) {
	b := &Batch{Dir: dir, Items: items}
	if err := os.MkdirAll(dir, 0o755); err != nil {
		return nil, err
	}
	gomod := fmt.Sprintf("module vb\n\ngo 1.24\n\nrequire (\n\tverif.local/h v0.0.0\n\tpgregory.net/rapid v1.3.0\n)\n\nreplace verif.local/h => %s\n", harnessDir)
	if err := os.WriteFile(filepath.Join(dir, "go.mod"), []byte(gomod), 0o644); err != nil {
		return nil, err
	}
	if sum, err := os.ReadFile(filepath.Join(harnessDir, "go.sum")); err == nil {
		os.WriteFile(filepath.Join(dir, "go.sum"), sum, 0o644)
	}
	// 1. run gocc
	type job struct {
		it      *Item
		variant string
		flags   []string
	}
	var jobs []job
	for _, it := range items {
		jobs = append(jobs, job{it, "", it.Flags})
		var vs []string
		for v := range it.Variants {
			vs = append(vs, v)
		}
		sort.Strings(vs)
		for _, v := range vs {
			jobs = append(jobs, job{it, v, it.Variants[v]})
		}
	}
	var mu sync.Mutex
	var wg sync.WaitGroup
	sem := make(chan struct{}, 16)
	for _, j := range jobs {
		wg.Add(1)
		go func(j job) {
			defer wg.Done()
			sem <- struct{}{}
			defer func() { <-sem }()
			out := fmt.Sprintf("g%d%s", j.it.Index, suffix(j.variant))
			od := filepath.Join(dir, out)
			os.MkdirAll(od, 0o755)
			src := strings.ReplaceAll(j.it.G.Source(), "TOKENPKG", "vb/"+out+"/token")
			os.WriteFile(filepath.Join(od, "g.bnf"), []byte(src), 0o644)
			args := append(append([]string{}, j.flags...), "-o", out, filepath.Join(out, "g.bnf"))
			r := env.Run(dir, nil, args...)
			mu.Lock()
			defer mu.Unlock()
			if j.variant == "" {
				j.it.GoccExit = r.Exit
				j.it.GoccOut = trunc(r.Stdout+r.Stderr, 600)
				j.it.Conflicts = -1
				if m := conflictRe.FindStringSubmatch(r.Stdout); m != nil {
					j.it.Conflicts, _ = strconv.Atoi(m[1])
				}
			}
			if r.Exit != 0 && j.it.Dropped == "" {
				j.it.Dropped = fmt.Sprintf("gocc%s exit %d", suffix(j.variant), r.Exit)
				if r.CPULimit {
					j.it.Dropped = "gocc cpu limit"
				}
			}
		}(j)
	}
	wg.Wait()
	// 2. glue
	for _, it := range items {
		if it.Dropped != "" {
			continue
		}
		vs := []string{""}
		for v := range it.Variants {
			vs = append(vs, v)
		}
		for _, v := range vs {
			out := fmt.Sprintf("g%d%s", it.Index, suffix(v))
			hasLexer := it.HasLexer
			flags := it.Flags
			if v != "" {
				flags = it.Variants[v]
			}
			for _, f := range flags {
				if f == "-no_lexer" {
					hasLexer = false
				}
			}
			if err := glue.Write(filepath.Join(dir, out), glue.Params{Pkg: "vb/" + out, Index: it.Index, Variant: v, HasLexer: hasLexer, HasParser: it.HasParser}); err != nil {
				return nil, err
			}
		}
	}
	// 3. compile, dropping grammars whose generated code does not build
	b.Binary = filepath.Join(dir, "bt.test")
	for attempt := 0; attempt < 6; attempt++ {
		if err := b.writeMain(); err != nil {
			return nil, err
		}
		args := []string{"test", "-c", "-o", b.Binary}
		if race {
			args = append(args, "-race")
		}
		args = append(args, "./bt")
		cmd := exec.Command("go", args...)
		cmd.Dir = dir
		cmd.Env = append(cleanGoEnv(), "GOFLAGS=-mod=mod", "GOPROXY=off")
		out, err := cmd.CombinedOutput()
		if err == nil {
			return b, b.writeCorpus()
		}
		bad := map[int]bool{}
		for _, m := range regexp.MustCompile(`(?m)\bg(\d+)(?:_[a-z_]+)?/`).FindAllStringSubmatch(string(out), -1) {
			n, _ := strconv.Atoi(m[1])
			bad[n] = true
		}
		if len(bad) == 0 {
			return nil, fmt.Errorf("batch does not compile and no grammar can be blamed:\n%s", trunc(string(out), 4000))
		}
		for _, it := range items {
			if bad[it.Index] && it.Dropped == "" {
				it.Dropped = "build-fail: " + firstErrorFor(string(out), it.Index)
				b.Log = append(b.Log, fmt.Sprintf("g%d dropped: %s", it.Index, it.Dropped))
			}
		}
	}
	return nil, fmt.Errorf("batch still does not compile after dropping failing grammars")
}

func firstErrorFor(out string, idx int) string {
	pre := fmt.Sprintf("g%d", idx)
	for _, l := range strings.Split(out, "\n") {
		if strings.Contains(l, pre+"/") || strings.Contains(l, pre+"_") {
			if !strings.HasPrefix(l, "#") {
				return trunc(l, 300)
			}
		}
	}
	return "?"
}

func trunc(s string, n int) string {
	if len(s) > n {
		return s[:n] + "…"
	}
	return s
}

func cleanGoEnv() []string {
	var out []string
	for _, e := range os.Environ() {
		if strings.HasPrefix(e, "GOFLAGS=") || strings.HasPrefix(e, "GOPROXY=") || strings.HasPrefix(e, "GOTOOLCHAIN=") || strings.HasPrefix(e, "GOSUMDB=") {
			continue
		}
		out = append(out, e)
	}
	return out
}

func (b *Batch) writeMain() error {
	d := filepath.Join(b.Dir, "bt")
	if err := os.MkdirAll(d, 0o755); err != nil {
		return err
	}
	var sb strings.Builder
	sb.WriteString("package bt\n\nimport (\n\t\"testing\"\n\n\t\"verif.local/h/bprops\"\n")
	for _, it := range b.Items {
		if it.Dropped != "" {
			continue
		}
		fmt.Fprintf(&sb, "\t_ \"vb/g%d/glue\"\n", it.Index)
		var vs []string
		for v := range it.Variants {
			vs = append(vs, v)
		}
		sort.Strings(vs)
		for _, v := range vs {
			fmt.Fprintf(&sb, "\t_ \"vb/g%d%s/glue\"\n", it.Index, suffix(v))
		}
	}
	sb.WriteString(")\n\nfunc TestBatch(t *testing.T) { bprops.Main(t) }\n")
	return os.WriteFile(filepath.Join(d, "main_test.go"), []byte(sb.String()), 0o644)
}

func (b *Batch) CorpusPath() string { return filepath.Join(b.Dir, "corpus.json") }

func (b *Batch) writeCorpus() error {
	j, err := json.Marshal(b.Items)
	if err != nil {
		return err
	}
	return os.WriteFile(b.CorpusPath(), j, 0o644)
}

// LoadCorpus is used inside the batch binary.
func LoadCorpus(path string) ([]*Item, error) {
	j, err := os.ReadFile(path)
	if err != nil {
		return nil, err
	}
	var items []*Item
	if err := json.Unmarshal(j, &items); err != nil {
		return nil, err
	}
	return items, nil
}

// Live returns the items that made it into the binary.
func (b *Batch) Live() []*Item {
	var out []*Item
	for _, it := range b.Items {
		if it.Dropped == "" {
			out = append(out, it)
		}
	}
	return out
}

// Package ex runs the gocc binary built from /repo's working tree in scratch
// module directories and collects what it wrote.
package ex

import (
	"bytes"
	"context"
	"errors"
	"fmt"
	"io/fs"
	"os"
	"os/exec"
	"path/filepath"
	"sort"
	"strings"
	"syscall"
	"time"
)

type Env struct {
	Gocc    string // path of the gocc binary
	Scratch string // private scratch root (a Go module named ModName)
	ModName string
	seq     int
}

// FromEnv builds an Env from VERIF_GOCC / VERIF_SCRATCH; sub is a unique
// sub-directory name (shard).
func FromEnv(sub string) (*Env, error) {
	g := os.Getenv("VERIF_GOCC")
	s := os.Getenv("VERIF_SCRATCH")
	if g == "" || s == "" {
		return nil, errors.New("VERIF_GOCC and VERIF_SCRATCH must be set (run through check.sh)")
	}
	e := &Env{Gocc: g, Scratch: filepath.Join(s, sub), ModName: "vb"}
	if err := os.MkdirAll(e.Scratch, 0o755); err != nil {
		return nil, err
	}
	if err := os.WriteFile(filepath.Join(e.Scratch, "go.mod"), []byte("module vb\n\ngo 1.24\n"), 0o644); err != nil {
		return nil, err
	}
	return e, nil
}

// Root returns a fresh module root directory (its own go.mod, module vb): two
// runs that must be compared byte for byte are made in two roots with the same
// module name and the same relative paths.
func (e *Env) Root(name string) (string, error) {
	d := filepath.Join(e.Scratch, name)
	os.RemoveAll(d)
	if err := os.MkdirAll(d, 0o755); err != nil {
		return "", err
	}
	if err := os.WriteFile(filepath.Join(d, "go.mod"), []byte("module vb\n\ngo 1.24\n"), 0o644); err != nil {
		return "", err
	}
	return d, nil
}

type Result struct {
	Exit     int
	Stdout   string
	Stderr   string
	CPULimit bool // killed by the CPU limit
	Signal   string
	UserCPU  time.Duration
}

// CPUSeconds is the RLIMIT_CPU given to gocc children (C09's termination
// oracle); generous: typical runs use < 0.1 s.
var CPUSeconds = 20

// Run executes gocc in dir with args. Resource limits are applied with
// prlimit-style wrapper: ulimit through sh, so that the limit is CPU time
// measured by the kernel, not wall time.
func (e *Env) Run(dir string, extraEnv []string, args ...string) Result {
	return e.RunCPU(dir, extraEnv, CPUSeconds, args...)
}

// RunCPU is Run with an explicit CPU limit (seconds).
func (e *Env) RunCPU(dir string, extraEnv []string, cpu int, args ...string) Result {
	var sb strings.Builder
	fmt.Fprintf(&sb, "ulimit -t %d; ulimit -v %d; exec \"$0\" \"$@\"", cpu, 6*1024*1024)
	ctx, cancel := context.WithTimeout(context.Background(), 10*time.Minute)
	defer cancel()
	cmd := exec.CommandContext(ctx, "/bin/sh", append([]string{"-c", sb.String(), e.Gocc}, args...)...)
	cmd.Dir = dir
	cmd.Env = append(os.Environ(), extraEnv...)
	var so, se bytes.Buffer
	cmd.Stdout = &so
	cmd.Stderr = &se
	err := cmd.Run()
	r := Result{Stdout: so.String(), Stderr: se.String()}
	if cmd.ProcessState != nil {
		r.UserCPU = cmd.ProcessState.UserTime()
	}
	if err != nil {
		var ee *exec.ExitError
		if errors.As(err, &ee) {
			r.Exit = ee.ExitCode()
			if ws, ok := ee.Sys().(syscall.WaitStatus); ok && ws.Signaled() {
				r.Signal = ws.Signal().String()
				r.Exit = 128 + int(ws.Signal())
				if ws.Signal() == syscall.SIGXCPU || ws.Signal() == syscall.SIGKILL {
					r.CPULimit = true
				}
			}
		} else {
			r.Exit = -1
			r.Stderr += "\nexec error: " + err.Error()
		}
	}
	return r
}

// GoFiles returns the .go files below dir (relative path -> content).
func GoFiles(dir string) map[string][]byte {
	out := map[string][]byte{}
	filepath.WalkDir(dir, func(p string, d fs.DirEntry, err error) error {
		if err != nil || d.IsDir() {
			return nil
		}
		if strings.HasSuffix(p, ".go") {
			b, _ := os.ReadFile(p)
			rel, _ := filepath.Rel(dir, p)
			out[rel] = b
		}
		return nil
	})
	return out
}

// AllFiles returns every regular file below dir.
func AllFiles(dir string) map[string][]byte {
	out := map[string][]byte{}
	filepath.WalkDir(dir, func(p string, d fs.DirEntry, err error) error {
		if err != nil || d.IsDir() {
			return nil
		}
		b, _ := os.ReadFile(p)
		rel, _ := filepath.Rel(dir, p)
		out[rel] = b
		return nil
	})
	return out
}

// DiffFiles returns a description of the first difference between two file
// maps, or "".
func DiffFiles(a, b map[string][]byte) string {
	var names []string
	seen := map[string]bool{}
	for n := range a {
		names = append(names, n)
		seen[n] = true
	}
	for n := range b {
		if !seen[n] {
			names = append(names, n)
		}
	}
	sort.Strings(names)
	for _, n := range names {
		x, okx := a[n]
		y, oky := b[n]
		switch {
		case !okx:
			return "only in second: " + n
		case !oky:
			return "only in first: " + n
		case !bytes.Equal(x, y):
			i := 0
			for i < len(x) && i < len(y) && x[i] == y[i] {
				i++
			}
			lo := i - 40
			if lo < 0 {
				lo = 0
			}
			hx, hy := i+40, i+40
			if hx > len(x) {
				hx = len(x)
			}
			if hy > len(y) {
				hy = len(y)
			}
			return fmt.Sprintf("%s differs at byte %d: %q vs %q", n, i, x[lo:hx], y[lo:hy])
		}
	}
	return ""
}

// Command verif is the driver behind /verif/check.sh: it rebuilds gocc from
// the repository's working tree, runs the property's engine (sharded rapid
// checks, batch compilation, replays), folds the shards' counters into
// /verif/evidence/<ID>.json and prints VIOLATION / KNOWN-FINDING lines.
//
// Exit status: 0 held, 1 violation, 2 infrastructure trouble.
package main

import (
	"encoding/json"
	"fmt"
	"os"
	"os/exec"
	"os/signal"
	"path/filepath"
	"sort"
	"strconv"
	"strings"
	"sync"
	"syscall"
	"time"

	"verif.local/h/batch"
	"verif.local/h/ev"
)

var (
	verifDir = "/verif"
	repoDir  = "/repo"
	scratch  string
	seed     = 1
	tier     = "quick"
	started  = time.Now()
)

// violationPrinted: a VIOLATION line is already on stdout; later trouble must
// not turn the run into "infrastructure" (exit 2).
var violationPrinted bool

func infra(format string, a ...any) {
	fmt.Fprintf(os.Stderr, "INFRA: "+format+"\n", a...)
	cleanup()
	if violationPrinted {
		os.Exit(1)
	}
	os.Exit(2)
}

func cleanup() {
	if scratch != "" && os.Getenv("VERIF_KEEP") == "" {
		os.RemoveAll(scratch)
	}
}

func goEnv() []string {
	env := os.Environ()
	var out []string
	for _, e := range env {
		if strings.HasPrefix(e, "GOFLAGS=") || strings.HasPrefix(e, "GOPROXY=") || strings.HasPrefix(e, "GOTOOLCHAIN=") || strings.HasPrefix(e, "GOSUMDB=") {
			continue
		}
		out = append(out, e)
	}
	return append(out, "GOFLAGS=-mod=mod", "GOPROXY=off")
}

func run(dir string, env []string, name string, args ...string) (string, error) {
	cmd := exec.Command(name, args...)
	cmd.Dir = dir
	cmd.Env = append(goEnv(), env...)
	b, err := cmd.CombinedOutput()
	return string(b), err
}

func main() {
	if len(os.Args) >= 2 && os.Args[1] == "mkreplay" {
		mkreplay(os.Args[2:])
		return
	}
	if len(os.Args) < 3 {
		fmt.Fprintln(os.Stderr, "usage: verif <ID> <quick|thorough> [--replay file]")
		os.Exit(2)
	}
	id, t := os.Args[1], os.Args[2]
	tier = t
	if tier != "quick" && tier != "thorough" {
		infra("bad tier %q", tier)
	}
	replay := ""
	for i := 3; i < len(os.Args); i++ {
		if os.Args[i] == "--replay" && i+1 < len(os.Args) {
			replay = os.Args[i+1]
			i++
		}
	}
	if replay != "" {
		if a, err := filepath.Abs(replay); err == nil {
			replay = a
		}
	}
	if s := os.Getenv("VERIF_SEED"); s != "" {
		if n, err := strconv.Atoi(s); err == nil {
			seed = n
		}
	}
	if seed == 0 {
		seed = 1 // rapid treats 0 as "random"
	}
	if seed < 0 {
		seed = -seed
	}
	if d := os.Getenv("VERIF_DIR"); d != "" {
		verifDir = d
	}
	if d := os.Getenv("VERIF_REPO"); d != "" {
		repoDir = d
	}
	base := os.Getenv("TMPDIR")
	if base == "" {
		base = "/var/tmp"
	}
	var err error
	scratch, err = os.MkdirTemp(base, "gocc-verif.")
	if err != nil {
		infra("scratch: %v", err)
	}
	sig := make(chan os.Signal, 1)
	signal.Notify(sig, syscall.SIGINT, syscall.SIGTERM)
	go func() {
		<-sig
		cleanup()
		os.Exit(2)
	}()
	c, ok := checks[id]
	if !ok {
		infra("unknown property %q", id)
	}
	code := c.run(c, replay)
	cleanup()
	os.Exit(code)
}

// buildGocc builds gocc from the repository's current working tree.
func buildGocc() string {
	out := filepath.Join(scratch, "gocc")
	if o, err := run(repoDir, nil, "go", "build", "-o", out, "."); err != nil {
		infra("building gocc from %s failed: %v\n%s", repoDir, err, o)
	}
	return out
}

// ---------------------------------------------------------------------------
// known findings

type knownFinding struct {
	Property string `json:"property"`
	Status   string `json:"status"` // "known" | "fixed"
	ID       string `json:"id"`
	Class    string `json:"class,omitempty"`
	Commit   string `json:"commit,omitempty"`
	What     string `json:"what"`
	Replay   string `json:"replay,omitempty"`
}

func loadKnown() []knownFinding {
	b, err := os.ReadFile(filepath.Join(verifDir, "known_findings.json"))
	if err != nil {
		return nil
	}
	var k struct {
		Findings []knownFinding `json:"findings"`
	}
	if err := json.Unmarshal(b, &k); err != nil {
		infra("known_findings.json: %v", err)
	}
	return k.Findings
}

func knownClasses(prop string) []string {
	var out []string
	for _, k := range loadKnown() {
		if k.Status == "known" && k.Class != "" && propListed(k.Property, prop) {
			out = append(out, k.Class)
		}
	}
	sort.Strings(out)
	return out
}

// ---------------------------------------------------------------------------
// evidence

type evidence struct {
	PropertyID  string         `json:"property_id"`
	Tier        string         `json:"tier"`
	Seed        int            `json:"seed"`
	Level       string         `json:"level"`
	Coverage    map[string]any `json:"coverage"`
	Assumptions []string       `json:"assumptions"`
	WallS       float64        `json:"wall_s"`
	Violations  int            `json:"violations"`
}

type merged struct {
	evals      int
	nt         map[string]bool
	classes    map[string]int
	excluded   map[string]int
	knownSeen  map[string]int
	samples    []any
	violations []ev.Violation
	notes      []string
	exhaustive bool
	shards     int
	rapidOK    int
}

func newMerged() *merged {
	return &merged{nt: map[string]bool{}, classes: map[string]int{}, excluded: map[string]int{}, knownSeen: map[string]int{}, exhaustive: false}
}

func (m *merged) add(path string) error {
	b, err := os.ReadFile(path)
	if err != nil {
		return err
	}
	var s ev.Stats
	if err := json.Unmarshal(b, &s); err != nil {
		return err
	}
	m.shards++
	m.evals += s.Evaluations
	for _, h := range s.NonTrivial {
		m.nt[h] = true
	}
	for k, v := range s.Classes {
		m.classes[k] += v
	}
	for k, v := range s.Excluded {
		m.excluded[k] += v
	}
	for k, v := range s.KnownSeen {
		m.knownSeen[k] += v
	}
	for _, x := range s.Samples {
		if len(m.samples) < 10 {
			m.samples = append(m.samples, x)
		}
	}
	m.violations = append(m.violations, s.Violations...)
	m.notes = append(m.notes, s.Notes...)
	if s.Exhaustive {
		m.exhaustive = true
	}
	return nil
}

func writeEvidence(c *check, m *merged, nviol int) {
	cov := map[string]any{
		"evaluations":         m.evals,
		"distinct_nontrivial": len(m.nt),
		"rule":                c.rule,
		"samples":             m.samples,
		"classes":             m.classes,
		"excluded_known":      m.excluded,
		"shards":              m.shards,
	}
	if m.exhaustive {
		cov["exhaustive"] = true
	}
	if len(m.notes) > 0 {
		if len(m.notes) > 20 {
			m.notes = m.notes[:20]
		}
		cov["notes"] = m.notes
	}
	if len(m.samples) == 0 {
		cov["samples"] = []any{"(no non-trivial case was generated)"}
	}
	e := evidence{PropertyID: c.id, Tier: tier, Seed: seed, Level: "exploration", Coverage: cov,
		Assumptions: c.assumptions, WallS: time.Since(started).Seconds(), Violations: nviol}
	b, _ := json.MarshalIndent(&e, "", " ")
	edir := filepath.Join(verifDir, "evidence")
	if d := os.Getenv("VERIF_EVIDENCE_DIR"); d != "" {
		edir = d // runs against seeded changes must not overwrite the real evidence
	}
	os.MkdirAll(edir, 0o755)
	if err := os.WriteFile(filepath.Join(edir, c.id+".json"), b, 0o644); err != nil {
		infra("writing evidence: %v", err)
	}
}

// ---------------------------------------------------------------------------
// generic sharded rapid engine (E-exec and E-inproc)

type tierCfg struct {
	shards int
	checks int // rapid checks per shard
}

type check struct {
	id          string
	module      string // directory of the module holding the test package, relative to /verif
	pkg         string // package path relative to module ("./props")
	test        string // test function
	quick       tierCfg
	thorough    tierCfg
	rule        string
	assumptions []string
	needGocc    bool
	env         []string
	run         func(c *check, replay string) int
	race        bool
	parts       []*part
	tests       []string // several test functions (each sharded); default: test
	prebuilt    string
	goccPath    string
	fuzz        string
	fuzzTime    string
	onBatch     func(c *check, p *part, b *batch.Batch, m *merged) string
}

func (c *check) tier() tierCfg {
	if tier == "thorough" {
		return c.thorough
	}
	return c.quick
}

func buildTest(c *check) string {
	bin := filepath.Join(scratch, c.id+".test")
	args := []string{"test", "-c", "-o", bin}
	if c.race {
		args = append(args, "-race")
	}
	args = append(args, c.pkg)
	if o, err := run(filepath.Join(verifDir, c.module), nil, "go", args...); err != nil {
		infra("building test binary failed: %v\n%s", err, o)
	}
	return bin
}

type shardResult struct {
	out  string
	err  error
	stat string
}

func runSharded(c *check, replay string) int { return runShardedTests(c, replay) }

func runShardedTests(c *check, replay string) int {
	gocc := c.goccPath
	if c.needGocc && gocc == "" {
		gocc = buildGocc()
	}
	bin := c.prebuilt
	if bin == "" {
		bin = buildTest(c)
	}
	tests := c.tests
	if len(tests) == 0 {
		tests = []string{c.test}
	}
	replayOut := filepath.Join(scratch, "replays")
	os.MkdirAll(replayOut, 0o755)
	known := strings.Join(knownClasses(c.id), ",")
	baseEnv := append([]string{
		"VERIF_GOCC=" + gocc,
		"VERIF_SCRATCH=" + filepath.Join(scratch, "work"),
		"VERIF_REPLAY_OUT=" + replayOut,
		"VERIF_KNOWN_CLASSES=" + known,
		"VERIF_TIER=" + tier,
		"VERIF_REPO=" + repoDir,
		"VERIF_SEED=" + strconv.Itoa(seed),
	}, c.env...)
	m := newMerged()

	// 1. regression tier: every committed replay of this property, and known findings
	code := 0
	kfs := loadKnown()
	replays, _ := filepath.Glob(filepath.Join(verifDir, "replays", c.id+"-*.json"))
	if replay != "" {
		replays = []string{replay}
	}
	knownByReplay := map[string]knownFinding{}
	for _, k := range kfs {
		if k.Replay != "" && k.Status == "known" {
			knownByReplay[filepath.Join(verifDir, k.Replay)] = k
		}
		if k.Replay != "" && replay == "" && propListed(k.Property, c.id) {
			replays = appendUnique(replays, filepath.Join(verifDir, k.Replay))
		}
	}
	for i, rp := range replays {
		stat := filepath.Join(scratch, fmt.Sprintf("rstat%d.json", i))
		env := append(append([]string{}, baseEnv...), "VERIF_REPLAY="+rp, "VERIF_STATS="+stat, "VERIF_SHARD=r")
		o, err := run(scratch, env, bin, "-test.run", "^"+tests[0]+"$", "-test.timeout", "10m")
		m.add(stat)
		if err != nil {
			if strings.Contains(o, "INFRA:") {
				infra("replay %s: %s", rp, o)
			}
			if k, ok := knownByReplay[rp]; ok {
				fmt.Printf("KNOWN-FINDING: property=%s %s\n", c.id, k.What)
				continue
			}
			violationPrinted = true
			fmt.Printf("VIOLATION property=%s replay=%s\n", c.id, rp)
			fmt.Println(indent(lastLines(o, 12)))
			code = 1
		}
	}
	if replay != "" {
		// replay mode: nothing else
		m.violations = nil
		writeEvidenceIfAny(c, m, code)
		return code
	}

	// 2. search
	tc := c.tier()
	results := make([]shardResult, tc.shards*len(tests))
	var wg sync.WaitGroup
	for ti, tname := range tests {
		for s := 0; s < tc.shards; s++ {
			wg.Add(1)
			go func(ti int, tname string, s int) {
				defer wg.Done()
				stat := filepath.Join(scratch, fmt.Sprintf("stat%d_%d.json", ti, s))
				env := append(append([]string{}, baseEnv...), "VERIF_STATS="+stat, "VERIF_SHARD="+strconv.Itoa(s))
				sd := seed*1000 + ti*100 + s
				o, err := run(scratch, env, bin, "-test.run", "^"+tname+"$", "-test.timeout", "0",
					"-rapid.checks", strconv.Itoa(tc.checks), "-rapid.seed", strconv.Itoa(sd), "-rapid.nofailfile")
				results[ti*tc.shards+s] = shardResult{o, err, stat}
			}(ti, tname, s)
		}
	}
	wg.Wait()
	for s, r := range results {
		if err := m.add(r.stat); err != nil {
			infra("shard %d wrote no stats: %v\n%s", s, err, lastLines(r.out, 30))
		}
		if r.err != nil {
			if strings.Contains(r.out, "INFRA:") || !strings.Contains(r.out, "--- FAIL") {
				infra("shard %d: %v\n%s", s, r.err, lastLines(r.out, 40))
			}
		}
	}
	// violations found by the search: keep the smallest, copy its replay
	seen := map[string]bool{}
	sort.Slice(m.violations, func(i, j int) bool { return m.violations[i].Size < m.violations[j].Size })
	nviol := 0
	for _, v := range m.violations {
		if v.Replay == "" || seen[v.Replay] {
			continue
		}
		seen[v.Replay] = true
		nviol++
		if nviol > 3 {
			continue
		}
		dst := filepath.Join(verifDir, "replays", "found", filepath.Base(v.Replay))
		os.MkdirAll(filepath.Dir(dst), 0o755)
		if b, err := os.ReadFile(v.Replay); err == nil {
			os.WriteFile(dst, b, 0o644)
		}
		violationPrinted = true
		fmt.Printf("VIOLATION property=%s replay=%s\n", c.id, dst)
		fmt.Println(indent(v.Msg))
		code = 1
	}
	for _, r := range results {
		if r.err != nil && nviol == 0 {
			// a failing shard without a recorded violation
			infra("shard failed without a recorded violation:\n%s", lastLines(r.out, 40))
		}
	}
	for id, n := range m.knownSeen {
		_ = n
		for _, k := range kfs {
			if k.ID == id && k.Status == "known" && k.Replay == "" {
				fmt.Printf("KNOWN-FINDING: property=%s %s\n", c.id, k.What)
			}
		}
	}
	writeEvidence(c, m, nviol)
	return code
}

func writeEvidenceIfAny(c *check, m *merged, code int) {
	if m.evals > 0 {
		n := 0
		if code == 1 {
			n = 1
		}
		// replay mode must not clobber the evidence of a real run with a
		// one-case file unless there is none yet
		p := filepath.Join(verifDir, "evidence", c.id+".json")
		if _, err := os.Stat(p); err != nil {
			writeEvidence(c, m, n)
		}
	}
}

func lastLines(s string, n int) string {
	ls := strings.Split(strings.TrimRight(s, "\n"), "\n")
	if len(ls) > n {
		ls = ls[len(ls)-n:]
	}
	return strings.Join(ls, "\n")
}

// indent also bounds what is printed: long lines and long messages are cut
// (the replay file holds the full case).
func indent(s string) string {
	ls := strings.Split(s, "\n")
	if len(ls) > 40 {
		ls = append(ls[:40], "…")
	}
	for i, l := range ls {
		if len(l) > 400 {
			ls[i] = l[:400] + "…"
		}
	}
	return "    " + strings.Join(ls, "\n    ")
}

func propListed(list, id string) bool {
	return strings.Contains(","+list+",", ","+id+",")
}

func appendUnique(xs []string, x string) []string {
	for _, y := range xs {
		if y == x {
			return xs
		}
	}
	return append(xs, x)
}

package main

import (
	"encoding/json"
	"fmt"
	"os"
	"path/filepath"
	"sort"
	"strings"

	"verif.local/h/batch"
	"verif.local/h/cfg"
	"verif.local/h/ev"
	"verif.local/h/ex"
	"verif.local/h/gr"
	"verif.local/h/lexnfa"
)

// shrinkGrammar reduces the grammar of a failing batch case structurally
// (DESIGN 3.2): every round builds all one-step reductions in one batch and
// keeps the smallest candidate on which the same case still fails.
func shrinkGrammar(c *check, p *part, env *ex.Env, replayPath string, known map[string]bool, baseEnv func(*part, *batch.Batch) []string) {
	b, err := os.ReadFile(replayPath)
	if err != nil {
		return
	}
	var rf ev.ReplayFile
	if json.Unmarshal(b, &rf) != nil {
		return
	}
	var cs map[string]json.RawMessage
	if json.Unmarshal(rf.Case, &cs) != nil {
		return
	}
	var g gr.Grammar
	if json.Unmarshal(cs["g"], &g) != nil {
		return
	}
	if t, ok := cs["tree"]; ok && string(t) != "null" {
		// the case carries a derivation tree whose production numbers refer to
		// this very grammar: reducing the grammar would invalidate it (the
		// sentence itself was already shrunk by rapid)
		return
	}
	var flags []string
	json.Unmarshal(cs["flags"], &flags)
	var variants map[string][]string
	json.Unmarshal(cs["variants"], &variants)
	cur := &g
	msg := rf.Msg
	inDomain := func(x *gr.Grammar) bool {
		if len(x.Lex) == 0 && len(x.Prods) == 0 {
			return false
		}
		hasTok := false
		for _, d := range x.Lex {
			if d.Kind == gr.DReg {
				continue
			}
			hasTok = true
			if nl, err := lexnfa.PatNullable(x, d.Pat); err != nil || nl {
				return false
			}
		}
		if len(x.Lex) > 0 && !hasTok && len(x.Prods) == 0 {
			return false
		}
		if len(x.Lex) > 0 {
			m, err := lexnfa.New(x)
			if err != nil {
				return false
			}
			if known["regdef-overlap"] {
				if in, _, _ := m.OverlapClass(3000); in {
					return false
				}
			}
		}
		if len(x.Prods) > 0 {
			if _, err := cfg.FromGrammar(x); err != nil {
				return false
			}
		}
		return true
	}
	hasLexer := true
	for _, f := range flags {
		if f == "-no_lexer" {
			hasLexer = false
		}
	}
	for round := 0; round < 10; round++ {
		var cands []*gr.Grammar
		seen := map[string]bool{cur.Source(): true}
		for _, r := range cur.Reductions() {
			s := r.Source()
			if seen[s] || !inDomain(r) {
				continue
			}
			seen[s] = true
			cands = append(cands, r)
		}
		if len(cands) == 0 {
			break
		}
		sort.SliceStable(cands, func(i, j int) bool { return len(cands[i].Source()) < len(cands[j].Source()) })
		if len(cands) > 48 {
			cands = cands[:48]
		}
		var items []*batch.Item
		for i, r := range cands {
			if len(r.Lex) == 0 && hasLexer && len(r.StringLits()) == 0 {
				// a lexer without any pattern is not in any property's domain
				continue
			}
			items = append(items, &batch.Item{Index: i, G: r, Flags: flags, Variants: variants, HasLexer: hasLexer, HasParser: len(r.Prods) > 0})
		}
		if len(items) == 0 {
			break
		}
		dir := filepath.Join(scratch, fmt.Sprintf("shrink%d", round))
		bt, err := batch.Build(env, dir, filepath.Join(verifDir, "h"), items, p.race)
		if err != nil {
			break
		}
		best := -1
		bestMsg := ""
		for _, it := range bt.Live() {
			cs2 := map[string]json.RawMessage{}
			for k, v := range cs {
				cs2[k] = v
			}
			gb, _ := json.Marshal(it.G)
			cs2["g"] = gb
			cs2["index"] = json.RawMessage(fmt.Sprint(it.Index))
			cb, _ := json.Marshal(cs2)
			rf2 := rf
			rf2.Case = cb
			rb, _ := json.Marshal(&rf2)
			rp := filepath.Join(dir, fmt.Sprintf("cand%d.json", it.Index))
			os.WriteFile(rp, rb, 0o644)
			e := append(baseEnv(p, bt), "VERIF_REPLAY="+rp, "VERIF_STATS="+filepath.Join(dir, "st.json"))
			o, err := run(bt.Dir, e, bt.Binary, "-test.run", "^TestBatch$", "-test.timeout", "5m")
			if err != nil && !strings.Contains(o, "INFRA:") && strings.Contains(o, "replay fails") {
				if best < 0 || len(it.G.Source()) < len(cands[best].Source()) {
					best = it.Index
					if i := strings.Index(o, "replay fails: "); i >= 0 {
						bestMsg = strings.TrimSuffix(strings.TrimSpace(o[i+len("replay fails: "):]), "FAIL")
						bestMsg = dedent(bestMsg)
					}
				}
			}
		}
		os.RemoveAll(dir)
		if best < 0 {
			break
		}
		cur = cands[best]
		if bestMsg != "" {
			msg = bestMsg
		}
	}
	if cur == &g {
		return
	}
	gb, _ := json.Marshal(cur)
	cs["g"] = gb
	cs["index"] = json.RawMessage("0")
	cb, _ := json.Marshal(cs)
	rf.Case = cb
	rf.Msg = msg
	out, _ := json.MarshalIndent(&rf, "", " ")
	os.WriteFile(replayPath, out, 0o644)
}

func dedent(s string) string {
	ls := strings.Split(s, "\n")
	for i := range ls {
		ls[i] = strings.TrimPrefix(ls[i], "        ")
	}
	return strings.TrimSpace(strings.Join(ls, "\n"))
}

package main

import (
	"encoding/json"
	"fmt"
	"os"
	"path/filepath"
	"sort"
	"strconv"
	"strings"
	"sync"

	"verif.local/h/batch"
	"verif.local/h/ev"
	"verif.local/h/ex"
)

// part is one batch (a corpus + the in-binary property run on it).
type part struct {
	name     string // in-binary property name (VERIF_PROP)
	corpus   func(c *check, p *part, seed, n int, known map[string]bool, m *merged) []*batch.Item
	quick    batchCfg
	thorough batchCfg
	race     bool
}

type batchCfg struct {
	grammars int // corpus size
	shards   int
	checks   int // rapid checks per shard
}

func (p *part) cfg() batchCfg {
	if tier == "thorough" {
		return p.thorough
	}
	return p.quick
}

type replayCase struct {
	Index int      `json:"index"`
	Flags []string `json:"flags"`
}

func runBatch(c *check, replay string) int {
	gocc := buildGocc()
	env := &ex.Env{Gocc: gocc, Scratch: filepath.Join(scratch, "work"), ModName: "vb"}
	os.MkdirAll(env.Scratch, 0o755)
	known := map[string]bool{}
	for _, k := range knownClasses(c.id) {
		known[k] = true
	}
	m := newMerged()
	code := 0
	kfs := loadKnown()
	replayOut := filepath.Join(scratch, "replays")
	os.MkdirAll(replayOut, 0o755)

	baseEnv := func(p *part, b *batch.Batch) []string {
		var ks []string
		for k := range known {
			ks = append(ks, k)
		}
		sort.Strings(ks)
		return append([]string{
			"VERIF_PROP=" + p.name,
			"VERIF_CORPUS=" + b.CorpusPath(),
			"VERIF_REPLAY_OUT=" + replayOut,
			"VERIF_KNOWN_CLASSES=" + strings.Join(ks, ","),
			"VERIF_TIER=" + tier,
			"VERIF_SEED=" + strconv.Itoa(seed),
		}, c.env...)
	}

	// 1. regression tier: committed replays and known findings
	replays, _ := filepath.Glob(filepath.Join(verifDir, "replays", c.id+"-*.json"))
	if replay != "" {
		replays = []string{replay}
	}
	knownByReplay := map[string]knownFinding{}
	for _, k := range kfs {
		if k.Replay != "" && k.Status == "known" {
			knownByReplay[filepath.Join(verifDir, k.Replay)] = k
		}
		if k.Replay != "" && replay == "" && propListed(k.Property, c.id) {
			replays = appendUnique(replays, filepath.Join(verifDir, k.Replay))
		}
	}
	// all replays of this property are built into ONE batch (one compile)
	type rpl struct {
		path string
		item *batch.Item
		part *part
		rf   *ev.ReplayFile
	}
	byRace := map[bool][]*rpl{}
	for _, rp := range replays {
		item := &batch.Item{}
		rf, err := ev.LoadReplay(rp, item)
		if err != nil {
			infra("replay %s: %v", rp, err)
		}
		var p *part
		for _, q := range c.parts {
			if q.name == rf.Property || (rf.Engine != "" && q.name == rf.Engine) {
				p = q
			}
		}
		if p == nil {
			p = c.parts[0]
		}
		item.Dropped = ""
		if item.G == nil {
			continue // a replay of another engine listed for this property too
		}
		item.HasLexer, item.HasParser = flagsShape(item)
		byRace[p.race] = append(byRace[p.race], &rpl{rp, item, p, rf})
	}
	for race, rs := range byRace {
		var items []*batch.Item
		for i, r := range rs {
			r.item.Index = i
			items = append(items, r.item)
		}
		b, err := batch.Build(env, filepath.Join(scratch, fmt.Sprintf("rb_%v", race)), filepath.Join(verifDir, "h"), items, race)
		if err != nil {
			infra("replays: batch: %v", err)
		}
		for i, r := range rs {
			rp := r.path
			failed, out := false, ""
			var rawCase map[string]json.RawMessage
			json.Unmarshal(r.rf.Case, &rawCase)
			if r.item.Dropped != "" && strings.HasPrefix(r.item.Dropped, "gocc") && string(rawCase["reject_ok"]) == "true" {
				// a grammar that gocc may either handle correctly or refuse: refused
				continue
			}
			if r.item.Dropped != "" {
				// the grammar no longer makes it into a binary: the case cannot be evaluated
				failed, out = true, "grammar dropped: "+r.item.Dropped
			} else {
				// same case, index rewritten to the position in this batch
				var cs map[string]json.RawMessage
				json.Unmarshal(r.rf.Case, &cs)
				cs["index"] = json.RawMessage(fmt.Sprint(i))
				cb, _ := json.Marshal(cs)
				rf2 := *r.rf
				rf2.Case = cb
				rb, _ := json.Marshal(&rf2)
				tmp := filepath.Join(b.Dir, fmt.Sprintf("replay%d.json", i))
				os.WriteFile(tmp, rb, 0o644)
				stat := filepath.Join(scratch, fmt.Sprintf("rstat_%v_%d.json", race, i))
				e := append(baseEnv(r.part, b), "VERIF_REPLAY="+tmp, "VERIF_STATS="+stat)
				o, err := run(b.Dir, e, b.Binary, "-test.run", "^TestBatch$", "-test.timeout", "20m")
				m.add(stat)
				if err != nil {
					if strings.Contains(o, "INFRA:") {
						infra("replay %s: %s", rp, o)
					}
					failed, out = true, o
				}
			}
			if failed {
				if k, ok := knownByReplay[rp]; ok {
					fmt.Printf("KNOWN-FINDING: property=%s %s\n", c.id, k.What)
					continue
				}
				violationPrinted = true
				fmt.Printf("VIOLATION property=%s replay=%s\n", c.id, rp)
				fmt.Println(indent(lastLines(out, 14)))
				code = 1
			}
		}
		os.RemoveAll(b.Dir)
	}
	if replay != "" {
		m.violations = nil
		writeEvidenceIfAny(c, m, code)
		return code
	}

	// 2. search, part by part
	nviol := 0
	for pi, p := range c.parts {
		bc := p.cfg()
		items := p.corpus(c, p, seed, bc.grammars, known, m)
		b, err := batch.Build(env, filepath.Join(scratch, fmt.Sprintf("b%d", pi)), filepath.Join(verifDir, "h"), items, p.race)
		if err != nil {
			infra("batch: %v", err)
		}
		for _, it := range items {
			if it.Dropped != "" {
				m.classes["grammar_dropped:"+dropClass(it.Dropped)]++
				if len(m.notes) < 12 {
					m.notes = append(m.notes, fmt.Sprintf("dropped g%d (%s): %s | %s", it.Index, it.Dropped, oneLine(it.GoccOut, 160), oneLine(it.G.Source(), 200)))
				}
			}
		}
		m.classes["grammars_in_batch:"+p.name] += len(b.Live())
		if c.onBatch != nil {
			if v := c.onBatch(c, p, b, m); v != "" {
				fmt.Print(v)
				code = 1
				nviol++
			}
		}
		if len(b.Live()) == 0 {
			infra("no grammar of the corpus survived (part %s): %v", p.name, b.Log)
		}
		results := make([]shardResult, bc.shards)
		var wg sync.WaitGroup
		for s := 0; s < bc.shards; s++ {
			wg.Add(1)
			go func(s int) {
				defer wg.Done()
				stat := filepath.Join(scratch, fmt.Sprintf("stat%d_%d.json", pi, s))
				e := append(baseEnv(p, b), "VERIF_STATS="+stat, "VERIF_SHARD="+strconv.Itoa(s))
				sd := seed*1000 + pi*100 + s
				o, err := run(b.Dir, e, b.Binary, "-test.run", "^TestBatch$", "-test.timeout", "0",
					"-rapid.checks", strconv.Itoa(bc.checks), "-rapid.seed", strconv.Itoa(sd), "-rapid.nofailfile")
				results[s] = shardResult{o, err, stat}
			}(s)
		}
		wg.Wait()
		before := len(m.violations)
		for s, r := range results {
			if strings.Contains(r.out, "WARNING: DATA RACE") {
				dst := filepath.Join(verifDir, "replays", "found", fmt.Sprintf("%s-race-%s.txt", c.id, ev.Hash(raceSig(r.out))))
				os.MkdirAll(filepath.Dir(dst), 0o755)
				os.WriteFile(dst, []byte(r.out), 0o644)
				violationPrinted = true
				fmt.Printf("VIOLATION property=%s replay=%s\n%s\n", c.id, dst, indent(raceExcerpt(r.out)))
				code = 1
				nviol++
				results[s].err = nil
				continue
			}
			if err := m.add(r.stat); err != nil {
				infra("part %s shard %d wrote no stats: %v\n%s", p.name, s, err, lastLines(r.out, 30))
			}
			if r.err != nil && strings.Contains(r.out, "INFRA:") {
				infra("part %s shard %d: %s", p.name, s, lastLines(r.out, 30))
			}
		}
		vs := m.violations[before:]
		sort.Slice(vs, func(i, j int) bool { return vs[i].Size < vs[j].Size })
		seen := map[string]bool{}
		shown := 0
		for _, v := range vs {
			if v.Replay == "" || seen[v.Replay] {
				continue
			}
			seen[v.Replay] = true
			nviol++
			shown++
			if shown > 3 {
				continue
			}
			base := filepath.Base(v.Replay)
			if i := strings.Index(base, "-"); i > 0 {
				base = c.id + base[i:]
			}
			dst := filepath.Join(verifDir, "replays", "found", base)
			os.MkdirAll(filepath.Dir(dst), 0o755)
			if bb, err := os.ReadFile(v.Replay); err == nil {
				// stamp the part name so that the replay finds its property
				os.WriteFile(dst, stampEngine(bb, p.name), 0o644)
			}
			msg := v.Msg
			if shown == 1 && os.Getenv("VERIF_NOSHRINK") == "" {
				// structural reduction of the grammar of the smallest failing case
				shrinkGrammar(c, p, env, dst, known, baseEnv)
				var rf ev.ReplayFile
				if bb, err := os.ReadFile(dst); err == nil && json.Unmarshal(bb, &rf) == nil && rf.Msg != "" {
					msg = rf.Msg
				}
			}
			violationPrinted = true
			fmt.Printf("VIOLATION property=%s replay=%s\n", c.id, dst)
			fmt.Println(indent(msg))
			code = 1
		}
		for _, r := range results {
			if r.err != nil && shown == 0 {
				infra("part %s: shard failed without a recorded violation:\n%s", p.name, lastLines(r.out, 40))
			}
		}
		os.RemoveAll(b.Dir)
	}
	writeEvidence(c, m, nviol)
	return code
}

func stampEngine(b []byte, name string) []byte {
	s := string(b)
	return []byte(strings.Replace(s, `"engine": "batch"`, `"engine": "`+name+`"`, 1))
}

func dropClass(s string) string {
	if strings.HasPrefix(s, "build-fail") {
		return "build-fail"
	}
	return s
}

func flagsShape(it *batch.Item) (hasLexer, hasParser bool) {
	hasLexer = true
	for _, f := range it.Flags {
		if f == "-no_lexer" {
			hasLexer = false
		}
	}
	hasParser = len(it.G.Prods) > 0
	return
}

func oneLine(s string, n int) string {
	s = strings.ReplaceAll(s, "\n", " / ")
	if len(s) > n {
		s = s[:n] + "…"
	}
	return s
}

func raceExcerpt(out string) string {
	i := strings.Index(out, "WARNING: DATA RACE")
	if i < 0 {
		return ""
	}
	return firstN(out[i:], 40)
}

func firstN(s string, n int) string {
	ls := strings.Split(s, "\n")
	if len(ls) > n {
		ls = ls[:n]
	}
	return strings.Join(ls, "\n")
}

// raceSig: the source lines named in the report, without addresses.
func raceSig(out string) string {
	var b strings.Builder
	for _, l := range strings.Split(raceExcerpt(out), "\n") {
		if strings.Contains(l, ".go:") {
			f := strings.Fields(l)
			b.WriteString(f[0])
			b.WriteString(";")
		}
	}
	return b.String()
}

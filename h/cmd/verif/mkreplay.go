package main

import (
	"encoding/json"
	"flag"
	"fmt"
	"os"
	"strconv"
	"strings"

	"verif.local/h/ev"
	"verif.local/h/gr"
)

// mkreplay writes a replay file for a hand-written case:
//
//	verif mkreplay -prop C01 -g grammar.bnf -src '"ab\xff"' [-flags "-a -zip"] [-toks "a b c"] [-k 2] [-msg text] > replays/C01-x.json
func mkreplay(args []string) {
	fs := flag.NewFlagSet("mkreplay", flag.ExitOnError)
	prop := fs.String("prop", "", "property / batch part name")
	gfile := fs.String("g", "", "grammar file (gocc syntax)")
	src := fs.String("src", "", "input as a Go quoted string")
	flags := fs.String("flags", "", "gocc flags")
	toks := fs.String("toks", "", "token names separated by blanks (parser cases)")
	k := fs.Int("k", 0, "K parameter")
	msg := fs.String("msg", "", "description")
	extra := fs.String("extra", "", "extra JSON object merged into the case")
	fs.Parse(args)
	b, err := os.ReadFile(*gfile)
	if err != nil {
		infra("%v", err)
	}
	g, err := gr.Parse(string(b))
	if err != nil {
		infra("%v", err)
	}
	c := map[string]any{"index": 0, "g": g}
	if *flags != "" {
		c["flags"] = strings.Fields(*flags)
	}
	if *src != "" {
		s, err := strconv.Unquote(*src)
		if err != nil {
			infra("-src: %v", err)
		}
		c["src"] = []byte(s)
	}
	if *toks != "" {
		c["toks"] = strings.Fields(*toks)
	}
	if *k != 0 {
		c["k"] = *k
	}
	if *extra != "" {
		var m map[string]any
		if err := json.Unmarshal([]byte(*extra), &m); err != nil {
			infra("-extra: %v", err)
		}
		for kk, v := range m {
			c[kk] = v
		}
	}
	cb, _ := json.Marshal(c)
	rf := ev.ReplayFile{Property: *prop, Engine: *prop, Case: cb, Msg: *msg}
	out, _ := json.MarshalIndent(&rf, "", " ")
	fmt.Println(string(out))
}

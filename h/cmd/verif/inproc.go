package main

import (
	"fmt"
	"os"
	"path/filepath"
	"strings"

	"verif.local/h/ex"
)

// prepareInproc copies the E-inproc module into scratch, points its go.mod at
// the repository under test, and generates the util package whose RuneValue /
// IntValue / UintValue are part of C20 (gocc is run for that).
func prepareInproc(gocc string) string {
	src := filepath.Join(verifDir, "inproc")
	dst := filepath.Join(scratch, "inproc")
	os.MkdirAll(dst, 0o755)
	ents, err := os.ReadDir(src)
	if err != nil {
		infra("%v", err)
	}
	for _, e := range ents {
		if e.IsDir() || !strings.HasSuffix(e.Name(), ".go") {
			continue
		}
		b, _ := os.ReadFile(filepath.Join(src, e.Name()))
		os.WriteFile(filepath.Join(dst, e.Name()), b, 0o644)
	}
	tm, err := os.ReadFile(filepath.Join(src, "go.mod.tmpl"))
	if err != nil {
		infra("%v", err)
	}
	mod := strings.ReplaceAll(string(tm), "REPO_DIR", repoDir)
	mod = strings.ReplaceAll(mod, "HARNESS_DIR", filepath.Join(verifDir, "h"))
	os.WriteFile(filepath.Join(dst, "go.mod"), []byte(mod), 0o644)
	// go.sum: union of the repository's and the harness's
	var sum []byte
	for _, p := range []string{filepath.Join(repoDir, "go.sum"), filepath.Join(verifDir, "h", "go.sum")} {
		if b, err := os.ReadFile(p); err == nil {
			sum = append(sum, b...)
		}
	}
	os.WriteFile(filepath.Join(dst, "go.sum"), sum, 0o644)
	// generated util package
	env := &ex.Env{Gocc: gocc, Scratch: dst}
	os.WriteFile(filepath.Join(dst, "u.bnf"), []byte("a : 'a' ;\n"), 0o644)
	r := env.Run(dst, nil, "-o", "gutil", "u.bnf")
	if r.Exit != 0 {
		infra("gocc failed on the trivial grammar used to obtain the generated util package: %s", r.Stdout+r.Stderr)
	}
	for _, d := range []string{"lexer", "token"} {
		os.RemoveAll(filepath.Join(dst, "gutil", d))
	}
	return dst
}

func runInproc(c *check, replay string) int {
	gocc := buildGocc()
	dir := prepareInproc(gocc)
	bin := filepath.Join(scratch, c.id+".test")
	if o, err := run(dir, nil, "go", "test", "-c", "-o", bin, "."); err != nil {
		infra("building the in-process test binary failed: %v\n%s", err, o)
	}
	c.prebuilt = bin
	c.needGocc = true
	c.goccPath = gocc
	code := runShardedTests(c, replay)
	if code == 0 && tier == "thorough" && c.fuzz != "" && replay == "" {
		// native fuzzing campaign (not seedable; a finding counts only after
		// the saved input reproduces through the deterministic path)
		o, err := run(dir, []string{"VERIF_REPO=" + repoDir}, "go", "test", "-run", "^$", "-fuzz", "^"+c.fuzz+"$", "-fuzztime", c.fuzzTime, ".")
		if err != nil {
			if strings.Contains(o, "Failing input written to") {
				violationPrinted = true
				fmt.Printf("VIOLATION property=%s replay=%s\n%s\n", c.id, filepath.Join(verifDir, "replays", "found", c.id+"-fuzz.txt"), indent(lastLines(o, 25)))
				os.MkdirAll(filepath.Join(verifDir, "replays", "found"), 0o755)
				os.WriteFile(filepath.Join(verifDir, "replays", "found", c.id+"-fuzz.txt"), []byte(o), 0o644)
				return 1
			}
			fmt.Fprintf(os.Stderr, "native fuzzing ended abnormally (inconclusive):\n%s\n", lastLines(o, 10))
		}
	}
	return code
}

package main

import (
	"encoding/json"
	"fmt"
	"os"
	"os/exec"
	"path/filepath"
	"regexp"
	"sort"
	"strconv"
	"strings"
	"sync"

	"pgregory.net/rapid"
	"verif.local/h/ev"
	"verif.local/h/ex"
	"verif.local/h/gen"
	"verif.local/h/gr"
)

// C09 — gocc terminates; status zero means complete, compilable output.
//
// Cases are generated with rapid generators (Example(seed)), run through the
// gocc binary under a CPU limit, and every status-0 output is compiled in one
// `go build`. A failing case is shrunk by delta debugging over its source text.

type c09Case struct {
	Arm    string   `json:"arm"` // A hostile spellings, B pattern shapes, C mutated text
	Src    string   `json:"src"`
	Flags  []string `json:"flags"`
	OutOpt string   `json:"out"` // "", "out", "x/y"
	PkgOpt bool     `json:"pkg"` // pass -p with the correct path (only meaningful without -o)
	File   string   `json:"file"`
	// Pre, when set: the same file was generated from before, with these flags,
	// into the same output directory (regeneration over existing output)
	Pre []string `json:"pre,omitempty"`
}

type c09Gen struct{}

func drawC09(t *rapid.T) c09Case {
	var c c09Case
	arm := rapid.IntRange(0, 10).Draw(t, "arm")
	hasSyntax := false
	switch {
	case arm == 10:
		// E: bodies of 11-13 symbols with a recording action on every alternative:
		// attribute references with two digits ($10, $11, …)
		c.Arm = "E"
		so := gen.SynOpts{Actions: true, AllRec: true, NoTokCast: true, LongBodies: true, ErrorAlts: rapid.Bool().Draw(t, "eErr")}
		var g *gr.Grammar
		if rapid.Bool().Draw(t, "eSynOnly") {
			g = gen.SynGrammar(so).Draw(t, "eSyn")
		} else {
			g = gen.Combined(gen.DefaultLexOpts(), so).Draw(t, "eComb")
		}
		hasSyntax = true
		c.Src = g.Source()
	case arm == 9:
		// D: plain well-formed grammars of the kinds the other checks compile in
		// batches (there a grammar whose output does not build silently drops out;
		// here it is a violation)
		c.Arm = "D"
		lo := gen.DefaultLexOpts()
		var g *gr.Grammar
		switch rapid.IntRange(0, 3).Draw(t, "dKind") {
		case 0:
			g = gen.LexGrammar(lo).Draw(t, "dLex")
		case 1:
			g = gen.Combined(lo, gen.SynOpts{ErrorAlts: rapid.Bool().Draw(t, "dErr")}).Draw(t, "dComb")
		default:
			// with the recording actions of the batch checks ($0 … $11 and beyond in
			// long bodies, pass-through, default actions)
			so := gen.SynOpts{Actions: true, NoTokCast: true, ErrorAlts: rapid.Bool().Draw(t, "dErrA"), LongBodies: rapid.Bool().Draw(t, "dLong")}
			if rapid.Bool().Draw(t, "dSynOnly") {
				g = gen.SynGrammar(so).Draw(t, "dSynA")
			} else {
				g = gen.Combined(lo, so).Draw(t, "dCombA")
			}
		}
		hasSyntax = len(g.Prods) > 0
		c.Src = g.Source()
	case arm <= 2:
		c.Arm = "A"
		g := gen.HostileGrammar().Draw(t, "hostile")
		c.Src = g.Source()
		hasSyntax = true
	case arm <= 4:
		c.Arm = "B"
		g := gen.ShapeGrammar().Draw(t, "shape")
		c.Src = g.Source()
	default:
		c.Arm = "C"
		var g *gr.Grammar
		lo := gen.DefaultLexOpts()
		switch rapid.IntRange(0, 2).Draw(t, "baseKind") {
		case 0:
			g = gen.LexGrammar(lo).Draw(t, "lexBase")
		case 1:
			g = gen.SynGrammar(gen.SynOpts{}).Draw(t, "synBase")
		default:
			g = gen.Combined(lo, gen.SynOpts{}).Draw(t, "combBase")
		}
		hasSyntax = len(g.Prods) > 0
		c.Src = gen.MutateSource(t, g.Source())
	}
	for _, f := range []string{"-a", "-zip", "-no_lexer", "-debug_lexer", "-debug_parser", "-v"} {
		p := 3
		if f == "-a" && hasSyntax {
			p = 1 // conflicts are frequent; -a lets generation complete
		}
		if rapid.IntRange(0, p).Draw(t, "flag"+f) == 0 {
			c.Flags = append(c.Flags, f)
		}
	}
	if has(c.Flags, "-no_lexer") && has(c.Flags, "-debug_lexer") {
		c.Flags = remove(c.Flags, "-debug_lexer")
	}
	if c.Arm == "E" && !has(c.Flags, "-a") {
		c.Flags = append(c.Flags, "-a")
	}
	c.OutOpt = rapid.SampledFrom([]string{"", "", "out", "x/y"}).Draw(t, "outOpt")
	c.PkgOpt = rapid.IntRange(0, 3).Draw(t, "pkgOpt") == 0
	c.File = rapid.SampledFrom([]string{"g.bnf", "g.bnf", "grammar.txt", "g"}).Draw(t, "fileName")
	if rapid.IntRange(0, 7).Draw(t, "tail") == 0 {
		// what a file may end in: a comment without a line break behind it, an
		// unterminated comment or literal, a lone CR, NUL, half a UTF-8 sequence
		c.Src = strings.TrimRight(c.Src, "\n") + rapid.SampledFrom([]string{"// c", " // é", "//", "/* c */", "/* c", "/*", "/", "\r", "\x00", "\xe4\xb8", "'", "\"", "`", "<<", "<< x", "!", "_", "\ufeff"}).Draw(t, "tailText")
	}
	if c.Arm != "C" && rapid.IntRange(0, 4).Draw(t, "regenerate") == 0 {
		// the usual workflow: the output directory holds what an earlier run
		// wrote (here: the same grammar with the debug flags on and the other
		// table encoding, i.e. mostly larger files)
		for _, f := range c.Flags {
			if f == "-a" || f == "-no_lexer" {
				c.Pre = append(c.Pre, f)
			}
		}
		if !has(c.Flags, "-no_lexer") {
			c.Pre = append(c.Pre, "-debug_lexer")
		}
		c.Pre = append(c.Pre, "-debug_parser")
		if !has(c.Flags, "-zip") {
			c.Pre = append(c.Pre, "-zip")
		}
	}
	return c
}

func has(xs []string, x string) bool {
	for _, y := range xs {
		if y == x {
			return true
		}
	}
	return false
}

func remove(xs []string, x string) []string {
	var out []string
	for _, y := range xs {
		if y != x {
			out = append(out, y)
		}
	}
	return out
}

type c09Result struct {
	c        c09Case
	dir      string // case directory name inside the module
	res      ex.Result
	outDir   string // absolute output directory
	problem  string // "" = fine so far
	exit0    bool
	compiled bool
}

// runOne runs gocc for the case in <mod>/<name>.
func c09RunOne(env *ex.Env, mod, name string, c c09Case) *c09Result {
	r := &c09Result{c: c, dir: name}
	d := filepath.Join(mod, name)
	os.RemoveAll(d)
	os.MkdirAll(d, 0o755)
	os.WriteFile(filepath.Join(d, c.File), []byte(c.Src), 0o644)
	args := append([]string{}, c.Flags...)
	r.outDir = d
	if c.OutOpt != "" {
		args = append(args, "-o", c.OutOpt)
		r.outDir = filepath.Join(d, c.OutOpt)
	} else if c.PkgOpt {
		args = append(args, "-p", "vb/"+name)
	}
	args = append(args, c.File)
	if len(c.Pre) > 0 {
		pre := append(append([]string{}, c.Pre...), args[len(c.Flags):]...)
		env.Run(d, nil, pre...) // whatever it does: the run under test comes next
	}
	r.res = env.Run(d, nil, args...)
	if r.res.CPULimit {
		// once more with doubled limits before it counts
		// (the limit is passed along, not changed globally: cases run in parallel)
		r.res = env.RunCPU(d, nil, 2*ex.CPUSeconds, args...)
		if r.res.CPULimit {
			r.problem = fmt.Sprintf("gocc did not terminate within %d s of CPU time (signal %s)", 2*ex.CPUSeconds, r.res.Signal)
			return r
		}
	}
	if r.res.Exit != 0 {
		return r
	}
	r.exit0 = true
	// expected files
	need := []string{"token/token.go", "token/context.go", "util/litconv.go", "util/rune.go"}
	if !has(c.Flags, "-no_lexer") {
		need = append(need, "lexer/lexer.go", "lexer/acttab.go", "lexer/transitiontable.go")
	}
	hasParser := false
	if _, err := os.Stat(filepath.Join(r.outDir, "parser")); err == nil {
		hasParser = true
	}
	if g, err := gr.Parse(c.Src); err == nil && c.Arm != "C" {
		hasParser = len(g.Prods) > 0
	}
	if hasParser {
		need = append(need, "parser/parser.go", "parser/action.go", "parser/actiontable.go", "parser/gototable.go", "parser/productionstable.go", "parser/context.go", "errors/errors.go")
	}
	for _, f := range need {
		st, err := os.Stat(filepath.Join(r.outDir, f))
		if err != nil {
			r.problem = fmt.Sprintf("gocc exited 0 but did not write %s", f)
			return r
		}
		if st.Size() == 0 {
			r.problem = fmt.Sprintf("gocc exited 0 but wrote an empty %s", f)
			return r
		}
	}
	return r
}

var buildErrRe = regexp.MustCompile(`(?m)^(?:# vb/|)(c\d+)[/\s:]`)

// c09Build compiles every package below mod and returns, per case directory,
// the first error line.
func c09Build(mod string) (map[string]string, string) {
	cmd := exec.Command("go", "build", "./...")
	cmd.Dir = mod
	cmd.Env = goEnv()
	out, err := cmd.CombinedOutput()
	bad := map[string]string{}
	if err == nil {
		return bad, ""
	}
	for _, l := range strings.Split(string(out), "\n") {
		if strings.HasPrefix(l, "#") {
			continue
		}
		if m := regexp.MustCompile(`\b(c\d+)/`).FindStringSubmatch(l); m != nil {
			if _, ok := bad[m[1]]; !ok {
				bad[m[1]] = l
			}
		}
	}
	return bad, string(out)
}

func c09Module(dir string) {
	os.MkdirAll(dir, 0o755)
	gomod := fmt.Sprintf("module vb\n\ngo 1.24\n\nrequire verif.local/h v0.0.0\n\nrequire pgregory.net/rapid v1.3.0 // indirect\n\nreplace verif.local/h => %s\n", filepath.Join(verifDir, "h"))
	os.WriteFile(filepath.Join(dir, "go.mod"), []byte(gomod), 0o644)
	if sum, err := os.ReadFile(filepath.Join(verifDir, "h", "go.sum")); err == nil {
		os.WriteFile(filepath.Join(dir, "go.sum"), sum, 0o644)
	}
}

// c09Check evaluates one case completely (gocc + build of its own packages).
func c09Check(env *ex.Env, mod, name string, c c09Case) string {
	r := c09RunOne(env, mod, name, c)
	if r.problem != "" {
		return r.problem
	}
	if !r.exit0 {
		return ""
	}
	bad, _ := c09BuildOne(mod, name)
	return bad
}

func c09BuildOne(mod, name string) (string, string) {
	cmd := exec.Command("go", "build", "./"+name+"/...")
	cmd.Dir = mod
	cmd.Env = goEnv()
	out, err := cmd.CombinedOutput()
	if err == nil {
		return "", ""
	}
	for _, l := range strings.Split(string(out), "\n") {
		if l != "" && !strings.HasPrefix(l, "#") {
			return "gocc exited 0 but the generated packages do not compile: " + l, string(out)
		}
	}
	return "gocc exited 0 but the generated packages do not compile", string(out)
}

func problemKind(p string) string {
	switch {
	case strings.Contains(p, "did not terminate"):
		return "timeout"
	case strings.Contains(p, "did not write"), strings.Contains(p, "wrote an empty"):
		return "files"
	case strings.Contains(p, "do not compile"):
		return "compile"
	}
	return p
}

// c09Shrink: delta debugging over the source text (by lines, then by blank
// separated words, then by bytes), keeping the same kind of problem.
func c09Shrink(env *ex.Env, mod string, c c09Case, problem string) (c09Case, string) {
	kind := problemSig(problem)
	budget := 60
	test := func(src string) (bool, string) {
		if budget <= 0 {
			return false, ""
		}
		budget--
		cc := c
		cc.Src = src
		p := c09Check(env, mod, "shrink", cc)
		return p != "" && problemSig(p) == kind, p
	}
	if len(c.Pre) > 0 {
		cc := c
		cc.Pre = nil
		if p := c09Check(env, mod, "shrink", cc); p != "" && problemSig(p) == kind {
			c, problem = cc, p
		}
	}
	// drop flags first
	for _, f := range append([]string{}, c.Flags...) {
		cc := c
		cc.Flags = remove(c.Flags, f)
		if p := c09Check(env, mod, "shrink", cc); p != "" && problemSig(p) == kind {
			c, problem = cc, p
		}
	}
	if c.OutOpt != "" || c.PkgOpt {
		cc := c
		cc.OutOpt, cc.PkgOpt = "", false
		if p := c09Check(env, mod, "shrink", cc); p != "" && problemSig(p) == kind {
			c, problem = cc, p
		}
	}
	for _, split := range []func(string) []string{
		func(s string) []string { return strings.SplitAfter(s, "\n") },
		func(s string) []string { return strings.SplitAfter(s, " ") },
	} {
		parts := split(c.Src)
		n := 2
		for len(parts) >= 2 && budget > 0 {
			chunk := (len(parts) + n - 1) / n
			reduced := false
			for i := 0; i < len(parts); i += chunk {
				j := i + chunk
				if j > len(parts) {
					j = len(parts)
				}
				cand := strings.Join(append(append([]string{}, parts[:i]...), parts[j:]...), "")
				if ok, p := test(cand); ok {
					parts = split(cand)
					c.Src, problem = cand, p
					n = max(n-1, 2)
					reduced = true
					break
				}
			}
			if !reduced {
				if n >= len(parts) {
					break
				}
				n = min(2*n, len(parts))
			}
		}
	}
	return c, problem
}

func runC09(c *check, replay string) int {
	gocc := buildGocc()
	env := &ex.Env{Gocc: gocc, Scratch: filepath.Join(scratch, "work"), ModName: "vb"}
	mod := filepath.Join(scratch, "m")
	c09Module(mod)
	m := newMerged()
	code := 0
	nviol := 0
	kfs := loadKnown()

	report := func(cs c09Case, problem string, fromReplay string) {
		if fromReplay != "" {
			for _, k := range kfs {
				if k.Status == "known" && k.Replay != "" && filepath.Join(verifDir, k.Replay) == fromReplay {
					fmt.Printf("KNOWN-FINDING: property=%s %s\n", c.id, k.What)
					return
				}
			}
			violationPrinted = true
			fmt.Printf("VIOLATION property=%s replay=%s\n    %s\n", c.id, fromReplay, problem)
			code = 1
			nviol++
			return
		}
		cb, _ := json.Marshal(cs)
		rf := ev.ReplayFile{Property: c.id, Engine: "c09", Case: cb, Msg: problem, Seed: strconv.Itoa(seed)}
		b, _ := json.MarshalIndent(&rf, "", " ")
		dst := filepath.Join(verifDir, "replays", "found", c.id+"-"+ev.Hash(string(cb))+".json")
		os.MkdirAll(filepath.Dir(dst), 0o755)
		os.WriteFile(dst, b, 0o644)
		nviol++
		if nviol <= 4 {
			violationPrinted = true
			fmt.Printf("VIOLATION property=%s replay=%s\n    %s\n    flags %v out=%q\n%s\n", c.id, dst, problem, cs.Flags, cs.OutOpt, indent(cs.Src))
		}
		code = 1
	}

	// 1. regression tier
	replays, _ := filepath.Glob(filepath.Join(verifDir, "replays", c.id+"-*.json"))
	for _, k := range kfs {
		if k.Replay != "" && replay == "" && propListed(k.Property, c.id) {
			replays = appendUnique(replays, filepath.Join(verifDir, k.Replay))
		}
	}
	if replay != "" {
		replays = []string{replay}
	}
	for i, rp := range replays {
		var cs c09Case
		rf, err := ev.LoadReplay(rp, &cs)
		if err != nil {
			infra("replay %s: %v", rp, err)
		}
		if rf.Engine != "c09" {
			continue // a replay of another property's engine listed for C09 too
		}
		m.evals++
		if p := c09Check(env, mod, fmt.Sprintf("r%d", i), cs); p != "" {
			report(cs, p, rp)
		}
		os.RemoveAll(filepath.Join(mod, fmt.Sprintf("r%d", i)))
	}
	if replay != "" {
		writeEvidenceIfAny(c, m, code)
		return code
	}

	// 2. search
	tc := c.tier()
	n := tc.checks
	g := rapid.Custom(drawC09)
	cases := make([]c09Case, n)
	for i := range cases {
		cases[i] = g.Example(seed*1000000 + i)
	}
	results := make([]*c09Result, n)
	var wg sync.WaitGroup
	sem := make(chan struct{}, 16)
	for i := range cases {
		wg.Add(1)
		go func(i int) {
			defer wg.Done()
			sem <- struct{}{}
			defer func() { <-sem }()
			results[i] = c09RunOne(env, mod, fmt.Sprintf("c%d", i), cases[i])
		}(i)
	}
	wg.Wait()
	// compile the outputs of the runs that exited 0 (all at once); the quick
	// tier compiles a bounded number of them, hostile spellings first
	compileCap := tc.shards
	byArm := map[string]int{}
	armCap := map[string]int{"A": compileCap * 5 / 10, "C": compileCap * 2 / 10, "B": compileCap / 10, "D": compileCap * 2 / 10, "E": compileCap / 10}
	for _, r := range results {
		keep := r.exit0 && r.problem == "" && byArm[r.c.Arm] < armCap[r.c.Arm]
		if keep {
			byArm[r.c.Arm]++
			r.compiled = true
		} else {
			os.RemoveAll(filepath.Join(mod, r.dir))
		}
	}
	bad, raw := c09Build(mod)
	if len(bad) == 0 && raw != "" {
		infra("go build of the generated packages failed without a blamable case:\n%s", lastLines(raw, 30))
	}
	type failure struct {
		i       int
		problem string
	}
	var fails []failure
	for i, r := range results {
		m.evals++
		m.classes["arm_"+r.c.Arm]++
		if len(r.c.Pre) > 0 {
			m.classes["regenerated_over_existing_output"]++
		}
		if r.exit0 {
			m.classes["exit0"]++
			m.classes["exit0_arm_"+r.c.Arm]++
		}
		if r.problem != "" {
			fails = append(fails, failure{i, r.problem})
			continue
		}
		if l, ok := bad[r.dir]; ok {
			fails = append(fails, failure{i, "gocc exited 0 but the generated packages do not compile: " + l})
			continue
		}
		if r.compiled {
			m.classes["compiled_arm_"+r.c.Arm]++
		}
		if r.compiled || (r.exit0 && r.c.Arm == "B") {
			fp := ev.Hash(r.c.Src, strings.Join(r.c.Flags, " "), r.c.OutOpt)
			if !m.nt[fp] {
				m.nt[fp] = true
				if len(m.samples) < 8 && len(m.nt)&(len(m.nt)-1) == 0 {
					m.samples = append(m.samples, map[string]any{"arm": r.c.Arm, "source": r.c.Src, "flags": r.c.Flags, "out": r.c.OutOpt, "compiled": r.compiled})
				}
			}
		}
	}
	m.shards = 1
	// group failures by kind + first words, shrink one representative per group
	groups := map[string][]failure{}
	var order []string
	for _, f := range fails {
		k := problemSig(f.problem)
		if _, ok := groups[k]; !ok {
			order = append(order, k)
		}
		groups[k] = append(groups[k], f)
	}
	sort.Strings(order)
	shrunk := 0
	for _, k := range order {
		fs := groups[k]
		sort.Slice(fs, func(i, j int) bool { return len(cases[fs[i].i].Src) < len(cases[fs[j].i].Src) })
		f := fs[0]
		cs, p := cases[f.i], f.problem
		if shrunk < 3 {
			cs, p = c09Shrink(env, mod, cs, p)
			shrunk++
		}
		m.classes["failures:"+k] += len(fs)
		report(cs, p, "")
	}
	// 3. thorough: native coverage-guided fuzzing of an in-process replica of
	// gocc's analysis pipeline; a hit counts only if the real binary reproduces it
	if tier == "thorough" && code == 0 {
		dir := prepareInproc(gocc)
		o, err := run(dir, []string{"VERIF_REPO=" + repoDir}, "go", "test", "-run", "^$", "-fuzz", "^FuzzC09Pipeline$", "-fuzztime", "150s", ".")
		m.classes["native_fuzz_campaigns"]++
		if err != nil && strings.Contains(o, "Failing input written to") {
			files, _ := filepath.Glob(filepath.Join(dir, "testdata", "fuzz", "FuzzC09Pipeline", "*"))
			for _, ff := range files {
				src := fuzzCorpusBytes(ff)
				cs := c09Case{Arm: "F", Src: string(src), File: "g.bnf"}
				if p := c09Check(env, mod, "fz", cs); p != "" {
					report(cs, p, "")
				} else {
					m.notes = append(m.notes, "native fuzzing reported a slow input that the real binary handles within its CPU limit (inconclusive, not a violation)")
				}
			}
		} else if err != nil {
			m.notes = append(m.notes, "native fuzzing ended abnormally (inconclusive): "+lastLines(o, 3))
		}
	}
	c.rule = c09Rule
	writeEvidence(c, m, nviol)
	return code
}

// fuzzCorpusBytes decodes a go-fuzz corpus file holding one []byte value.
func fuzzCorpusBytes(path string) []byte {
	b, err := os.ReadFile(path)
	if err != nil {
		return nil
	}
	for _, l := range strings.Split(string(b), "\n") {
		l = strings.TrimSpace(l)
		if strings.HasPrefix(l, "[]byte(") && strings.HasSuffix(l, ")") {
			if s, err := strconv.Unquote(l[len("[]byte(") : len(l)-1]); err == nil {
				return []byte(s)
			}
		}
	}
	return nil
}

var sigFileRe = regexp.MustCompile(`([a-z]+\.go):\d+:\d+: (.*)`)

// problemSig identifies a failure up to positions and quoted text: kind, file
// name and the first words of the compiler message.
func problemSig(p string) string {
	k := problemKind(p)
	if k != "compile" {
		if i := strings.Index(p, "token/token.go"); i >= 0 {
			return k + ":token.go"
		}
		return k
	}
	if m := sigFileRe.FindStringSubmatch(p); m != nil {
		msg := m[2]
		if i := strings.IndexAny(msg, "\"`'"); i >= 0 {
			msg = msg[:i]
		}
		w := strings.Fields(msg)
		if len(w) > 3 {
			w = w[:3]
		}
		return k + ":" + m[1] + ":" + strings.Join(w, " ")
	}
	return k
}

func sigOf(p string) string {
	// the part of a compile error after the position
	if i := strings.LastIndex(p, ": "); i >= 0 {
		s := p[i+2:]
		s = regexp.MustCompile(`[0-9]+`).ReplaceAllString(s, "N")
		if len(s) > 40 {
			s = s[:40]
		}
		return s
	}
	return ""
}

const c09Rule = "case = grammar source text + flags (-a -zip -no_lexer -debug_lexer -debug_parser -v subsets) + output directory (absent, out, x/y) + -p (absent/correct) + file name; one well-formed case in five is a REgeneration (the output directory holds what the same grammar gave with the debug flags on and the other table encoding); five arms: A well-formed grammars with hostile spellings (string literals with quotes, backticks, backslashes, $, %, {{, */, non-ASCII, tabs; Unicode/inner-! names; valid-Go actions with raw strings, comparison operators, $ inside Go strings, comments, format verbs; multi-import headers), B pattern shapes aimed at the item-set worklists (nested nullable repetitions/options, deep groups, long alternations, regdef chains), C byte/word mutations of grammars without any << >>, D plain well-formed lexical and combined grammars (Unicode edge characters incl. NUL in patterns), half of them with the recording / pass-through / default actions of the batch checks, E grammars with bodies of 11-13 symbols and a recording action on every alternative ($10 and beyond). Oracles: the child ends within a CPU-time limit (re-run once with the limit doubled); on status 0 every package the configuration calls for exists and no file is empty; `go build` of everything written succeeds. Failures are grouped and shrunk by delta debugging over the source text. The quick tier compiles a bounded number of the status-0 outputs (hostile spellings first). Non-trivial and distinct: distinct (source, flags, output option) with exit status 0 whose output was compiled, plus arm B cases (termination on nested nullable shapes) with exit status 0."

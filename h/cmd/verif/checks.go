package main

var checks = map[string]*check{}

func reg(c *check) {
	if c.run == nil {
		c.run = runSharded
	}
	if c.module == "" {
		c.module = "h"
	}
	checks[c.id] = c
}

func init() {
	reg(&check{
		id: "C04", pkg: "./props", test: "TestC04", needGocc: true,
		quick: tierCfg{shards: 8, checks: 200}, thorough: tierCfg{shards: 16, checks: 4000},
		rule: "case = random syntax grammar (LR(1) families, unconstrained random, with unreachable/unproductive nonterminals; with a lexical part in 1/4 of cases) run through the gocc binary twice (without and with -a); oracle = independent textbook canonical LR(1) construction (number of states with a conflicted entry, accept/reduce detection). Non-trivial and distinct: distinct grammar text that is conflicting, or has a nullable nonterminal, or >= 8 LR(1) states.",
		assumptions: []string{"grammar sizes bounded (<= 8 nonterminals, <= 6 terminals, bodies <= 4 symbols)", "harness LR(1) construction is correct (cross-checked against Earley in self-test)"},
	})
}

package props

import (
	"fmt"
	"os"
	"path/filepath"
	"strings"
	"sync"

	"pgregory.net/rapid"
	"verif.local/h/ev"
	"verif.local/h/gen"
	"verif.local/h/gr"
	"verif.local/h/spec"
)

// C14 — ill-formed grammars are rejected, never silently repaired.

type C14Case struct {
	Toks []string `json:"toks"` // the mutated grammar as a token list (one blank between tokens)
	Base string   `json:"base"` // the well-formed grammar it was derived from
	Muts []string `json:"muts"` // description of the mutations
	// Flags: extra command-line flags (rejection must not depend on them)
	Flags []string `json:"flags,omitempty"`
}

var (
	specOnce sync.Once
	theSpec  *spec.Spec
	specErr  error
)

func loadSpec() (*spec.Spec, error) {
	specOnce.Do(func() {
		repo := os.Getenv("VERIF_REPO")
		if repo == "" {
			repo = "/repo"
		}
		theSpec, specErr = spec.Load(repo)
	})
	return theSpec, specErr
}

var insertAlphabet = []string{":", ";", "|", ".", "-", "[", "]", "{", "}", "(", ")", "'x'", `"s"`, "`r`", "tkq", "_rq", "!igq", "Q", "<< z >>", "$", "#", ",", "=", "<", "/",
	// malformed character literals (not tokens of the documented lexical syntax)
	`'\x7g'`, `'\128'`, `'ab'`, `'\q'`, `'\u12'`, `'\U0000004_'`, `'\x4'`,
	// characters that look like white space but are not the scanner's (blank, tab, CR, LF)
	"/", "/", "/ x", "/ /",
	"\u00a0", "\u2028", "\u3000", "\f", "\v", "\u0085", "\u200b", "\u2003"}

var undefinedProdNames = []string{"Zz", "Undefined", "Q9", "Übung", "Ωmega", "Éa"}

func genC14(t *rapid.T) C14Case {
	lo := gen.DefaultLexOpts()
	lo.NoDot = true
	so := gen.SynOpts{NoEmpty: true}
	var g *gr.Grammar
	switch rapid.IntRange(0, 3).Draw(t, "baseKind") {
	case 0:
		lo2 := lo
		lo2.MaxLits = 0
		g = gen.LexGrammar(lo2).Draw(t, "lexBase")
		g.Prods = nil
	case 1:
		g = gen.SynGrammar(so).Draw(t, "synBase")
	default:
		g = gen.Combined(lo, so).Draw(t, "combinedBase")
	}
	if len(g.Prods) > 0 && rapid.IntRange(0, 2).Draw(t, "withActs") == 0 {
		gen.AddActions(t, g, gen.SynOpts{NoTokCast: true})
	}
	base := g.TokenList()
	toks := make([]string, len(base))
	for i, b := range base {
		toks[i] = b.Text
	}
	var muts []string
	n := rapid.IntRange(1, 2).Draw(t, "nMut")
	for k := 0; k < n; k++ {
		toks, muts = mutateGrammar(t, toks, muts)
	}
	var flags []string
	for _, f := range []string{"-no_lexer", "-zip", "-v", "-debug_parser"} {
		if rapid.IntRange(0, 3).Draw(t, "flag"+f) == 0 {
			flags = append(flags, f)
		}
	}
	return C14Case{Toks: toks, Base: g.Source(), Muts: muts, Flags: flags}
}

func mutateGrammar(t *rapid.T, toks []string, muts []string) ([]string, []string) {
	if len(toks) == 0 {
		return toks, muts
	}
	cp := func() []string { return append([]string{}, toks...) }
	idxOf := func(pred func(i int) bool) []int {
		var out []int
		for i := range toks {
			if pred(i) {
				out = append(out, i)
			}
		}
		return out
	}
	op := rapid.IntRange(0, 9).Draw(t, "gmutOp")
	switch {
	case op <= 2: // delete a token
		i := rapid.IntRange(0, len(toks)-1).Draw(t, "delAt")
		out := append(cp()[:i], toks[i+1:]...)
		return out, append(muts, fmt.Sprintf("delete #%d %q", i, toks[i]))
	case op <= 4: // insert a token
		i := rapid.IntRange(0, len(toks)).Draw(t, "insAt")
		if rapid.IntRange(0, 2).Draw(t, "insAtBoundary") == 0 {
			// between two definitions, or behind the last one
			bounds := append(idxOf(func(i int) bool { return toks[i] == ";" }), len(toks)-1)
			i = rapid.SampledFrom(bounds).Draw(t, "insBoundary") + 1
		}
		x := rapid.SampledFrom(insertAlphabet).Draw(t, "insTok")
		out := append([]string{}, toks[:i]...)
		out = append(out, x)
		out = append(out, toks[i:]...)
		return out, append(muts, fmt.Sprintf("insert %q at #%d", x, i))
	case op <= 6: // substitute a token
		i := rapid.IntRange(0, len(toks)-1).Draw(t, "subAt")
		x := rapid.SampledFrom(insertAlphabet).Draw(t, "subTok")
		out := cp()
		out[i] = x
		return out, append(muts, fmt.Sprintf("substitute #%d %q by %q", i, toks[i], x))
	case op == 7: // rename a reference to an undefined name
		refs := idxOf(func(i int) bool {
			c := spec.ClassOfText(toks[i])
			if c != "prodId" && c != "regDefId" {
				return false
			}
			return i+1 < len(toks) && toks[i+1] != ":" // a use, not a definition
		})
		if len(refs) == 0 {
			return toks, muts
		}
		i := rapid.SampledFrom(refs).Draw(t, "refAt")
		out := cp()
		if spec.ClassOfText(toks[i]) == "prodId" {
			out[i] = rapid.SampledFrom(undefinedProdNames).Draw(t, "undefProd")
		} else {
			out[i] = "_undefined" + fmt.Sprint(rapid.IntRange(0, 3).Draw(t, "undefReg"))
		}
		return out, append(muts, fmt.Sprintf("rename reference #%d %q to undefined %q", i, toks[i], out[i]))
	case op == 8: // duplicate a lexical definition
		defs := idxOf(func(i int) bool {
			c := spec.ClassOfText(toks[i])
			return (c == "tokId" || c == "regDefId" || c == "ignoredTokId") && i+1 < len(toks) && toks[i+1] == ":"
		})
		if len(defs) == 0 {
			return toks, muts
		}
		i := rapid.SampledFrom(defs).Draw(t, "dupAt")
		j := i
		for j < len(toks) && toks[j] != ";" {
			j++
		}
		if j >= len(toks) {
			return toks, muts
		}
		def := append([]string{}, toks[i:j+1]...)
		if rapid.Bool().Draw(t, "dupOtherBody") {
			def = []string{toks[i], ":", "'q'", ";"}
		}
		out := append([]string{}, toks[:j+1]...)
		out = append(out, def...)
		out = append(out, toks[j+1:]...)
		return out, append(muts, fmt.Sprintf("duplicate definition of %q", toks[i]))
	default: // empty an alternative of a syntax production
		starts := idxOf(func(i int) bool {
			if toks[i] != ":" && toks[i] != "|" {
				return false
			}
			// inside a syntax production: the head before the ':' is a prodId
			for k := i; k >= 0; k-- {
				if toks[k] == ":" && k > 0 {
					return spec.ClassOfText(toks[k-1]) == "prodId"
				}
			}
			return false
		})
		if len(starts) == 0 {
			return toks, muts
		}
		i := rapid.SampledFrom(starts).Draw(t, "emptyAt")
		j := i + 1
		for j < len(toks) && toks[j] != "|" && toks[j] != ";" {
			j++
		}
		out := append([]string{}, toks[:i+1]...)
		out = append(out, toks[j:]...)
		return out, append(muts, fmt.Sprintf("empty the alternative after #%d", i))
	}
}

// condemn decides whether the token list is certainly ill-formed by the
// property's own criteria; "" means the oracle cannot condemn it.
func condemn(sp *spec.Spec, toks []string) (reason string, inSyntaxProd bool) {
	classes := make([]string, len(toks))
	for i, t := range toks {
		classes[i] = spec.ClassOfText(t)
	}
	ids := sp.TermIDs(classes)
	if !sp.E.Accepts(ids) {
		vp := sp.E.ViablePrefixLen(ids)
		// is the first offending token inside a syntax production (after ':' or '|')?
		in := false
		for k := vp - 1; k >= 0 && k < len(toks); k-- {
			if toks[k] == ";" {
				break
			}
			if toks[k] == ":" && k > 0 && classes[k-1] == "prodId" {
				in = true
				break
			}
		}
		return fmt.Sprintf("token sequence is not a sentence of spec/gocc2.ebnf (first offending token #%d)", vp), in
	}
	g, err := gr.Parse(strings.Join(toks, " "))
	if err != nil {
		return "", false // the harness's own reader disagrees with Earley: do not condemn
	}
	// duplicate lexical definitions
	seen := map[string]bool{}
	for _, d := range g.Lex {
		if seen[d.Name] {
			return "lexical name " + d.Name + " defined twice", false
		}
		seen[d.Name] = true
	}
	// undefined syntax production
	defined := map[string]bool{}
	for _, p := range g.Prods {
		defined[p.Name] = true
	}
	for _, p := range g.Prods {
		for _, a := range p.Alts {
			for _, s := range a.Syms {
				if s.Kind == gr.SNT && !defined[s.Name] {
					return "undefined syntax production " + s.Name, true
				}
			}
		}
	}
	// undefined regular definition reachable from a token / ignored token, in a
	// grammar without '.'
	hasDot := false
	regs := map[string]*gr.Pat{}
	for _, d := range g.Lex {
		d.Pat.Walk(func(p *gr.Pat) {
			if p.Kind == gr.PDot {
				hasDot = true
			}
		})
		if d.Kind == gr.DReg {
			regs[d.Name] = d.Pat
		}
	}
	if !hasDot {
		visited := map[string]bool{}
		var undefined string
		var visit func(p *gr.Pat)
		visit = func(p *gr.Pat) {
			p.Walk(func(q *gr.Pat) {
				if q.Kind != gr.PRef || undefined != "" {
					return
				}
				r, ok := regs[q.Ref]
				if !ok {
					undefined = q.Ref
					return
				}
				if !visited[q.Ref] {
					visited[q.Ref] = true
					visit(r)
				}
			})
		}
		for _, d := range g.Lex {
			if d.Kind != gr.DReg {
				visit(d.Pat)
			}
		}
		if undefined != "" {
			return "undefined regular definition " + undefined, false
		}
	}
	return "", false
}

func checkC14(cx *Ctx, c C14Case) *Failure {
	sp, err := loadSpec()
	if err != nil {
		return Failf("INFRA: %v", err)
	}
	reason, inSyn := condemn(sp, c.Toks)
	if reason == "" {
		cx.Ev.Class("mutant_not_condemned")
		return nil
	}
	cx.Ev.Eval()
	dir, err := cx.Env.Root("c14")
	if err != nil {
		return Failf("INFRA: %v", err)
	}
	src := strings.Join(c.Toks, " ") + "\n"
	if err := os.WriteFile(filepath.Join(dir, "g.bnf"), []byte(src), 0o644); err != nil {
		return Failf("INFRA: %v", err)
	}
	for _, flags := range [][]string{append([]string{"-a"}, c.Flags...)} {
		args := append(append([]string{}, flags...), "-o", "out", "g.bnf")
		r := cx.Env.Run(dir, nil, args...)
		if r.CPULimit {
			return Failf("gocc did not terminate (CPU limit) on the ill-formed grammar %q", src)
		}
		if r.Exit == 0 {
			return Failf("ill-formed grammar accepted (exit 0, flags %v): %s\nmutations: %v\ngrammar: %s\nstdout: %s\nderived from:\n%s", flags, reason, c.Muts, src, tail(r.Stdout+r.Stderr), c.Base)
		}
	}
	cls := "condemned_lexical_part"
	if inSyn {
		cls = "condemned_in_syntax_production"
	}
	cx.Ev.Class(cls)
	switch {
	case strings.HasPrefix(reason, "token sequence"):
		cx.Ev.Class("reason:not_a_sentence_of_the_spec")
	case strings.HasPrefix(reason, "lexical name"):
		cx.Ev.Class("reason:duplicate_lexical_definition")
	case strings.HasPrefix(reason, "undefined regular"):
		cx.Ev.Class("reason:undefined_regular_definition")
	default:
		cx.Ev.Class("reason:undefined_production")
	}
	cx.Ev.NonTrivial(ev.Hash(src), func() any {
		return map[string]any{"grammar": src, "mutations": c.Muts, "why_ill_formed": reason, "in_syntax_production": inSyn}
	})
	return nil
}

var PropC14 = Prop[C14Case]{ID: "C14", Gen: genC14, Check: checkC14}

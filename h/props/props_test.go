package props

import "testing"

func TestC04(t *testing.T) { Run(t, PropC04) }

package props

import "testing"

func TestC04(t *testing.T) { Run(t, PropC04) }

func TestC11(t *testing.T) { Run(t, PropC11) }

func TestC13(t *testing.T) { Run(t, PropC13) }

func TestC14(t *testing.T) { Run(t, PropC14) }

func TestC19(t *testing.T) { Run(t, PropC19) }

package props

import (
	"fmt"
	"os"
	"path/filepath"
	"regexp"
	"strconv"

	"pgregory.net/rapid"
	"verif.local/h/cfg"
	"verif.local/h/ev"
	"verif.local/h/gen"
	"verif.local/h/gr"
)

// C04 — conflicts are reported exactly when the canonical LR(1) automaton has
// them; exit status policy with and without -a.

type C04Case struct {
	G *gr.Grammar `json:"g"`
	// WithLex: a lexical part defining every named token is present and the
	// lexer is generated too (otherwise -no_lexer).
	WithLex bool `json:"with_lex"`
}

var conflictRe = regexp.MustCompile(`(?m)^(\d+) LR-1 conflicts`)

// AddTrivialLex defines every named token of the syntax part as a distinct
// character literal.
func AddTrivialLex(g *gr.Grammar) {
	c := 'A'
	seen := map[string]bool{}
	for _, p := range g.Prods {
		for _, a := range p.Alts {
			for _, s := range a.Syms {
				if s.Kind == gr.STok && !seen[s.Name] {
					seen[s.Name] = true
					g.Lex = append(g.Lex, gr.LexDef{Name: s.Name, Kind: gr.DTok, Pat: gr.Lit(c)})
					c++
				}
			}
		}
	}
}

func genC04(t *rapid.T) C04Case {
	g := gen.SynGrammar(gen.SynOpts{}).Draw(t, "grammar")
	c := C04Case{G: g, WithLex: rapid.IntRange(0, 3).Draw(t, "withLex") == 0}
	if c.WithLex {
		AddTrivialLex(g)
	}
	return c
}

func checkC04(cx *Ctx, c C04Case) *Failure {
	cf, err := cfg.FromGrammar(c.G)
	if err != nil {
		return nil // outside the domain (cannot happen with the generator)
	}
	lr, err := cfg.BuildLR1(cf)
	if err != nil {
		cx.Ev.Class("model_too_large")
		return nil
	}
	conf := lr.Conflicts()
	cx.Ev.Eval()
	dir, err := cx.Env.Root("c04")
	if err != nil {
		return Failf("INFRA: %v", err)
	}
	if err := os.WriteFile(filepath.Join(dir, "g.bnf"), []byte(c.G.Source()), 0o644); err != nil {
		return Failf("INFRA: %v", err)
	}
	var base []string
	if !c.WithLex {
		base = append(base, "-no_lexer")
	}
	for _, auto := range []bool{false, true} {
		args := append([]string{}, base...)
		if auto {
			args = append(args, "-a")
		}
		args = append(args, "-o", "out", "g.bnf")
		os.RemoveAll(filepath.Join(dir, "out"))
		r := cx.Env.Run(dir, nil, args...)
		if r.CPULimit {
			return Failf("gocc %v hit the CPU limit", args)
		}
		m := conflictRe.FindStringSubmatch(r.Stdout)
		reported := -1
		if m != nil {
			reported, _ = strconv.Atoi(m[1])
		}
		mode := "without -a"
		if auto {
			mode = "with -a"
		}
		switch {
		case conf.AcceptReduce:
			if r.Exit == 0 {
				return Failf("%s: grammar has an accept/reduce conflict but gocc exited 0 (stdout %q)", mode, r.Stdout)
			}
		case conf.States > 0:
			if reported < 0 {
				return Failf("%s: automaton has %d conflicting states but gocc announced none (exit %d, stdout %q, stderr %q)", mode, conf.States, r.Exit, r.Stdout, tail(r.Stderr))
			}
			if reported != conf.States {
				return Failf("%s: automaton has %d conflicting states, gocc announced %d", mode, conf.States, reported)
			}
			if !auto && r.Exit == 0 {
				return Failf("%s: conflicts announced but exit status 0", mode)
			}
			if auto && r.Exit != 0 {
				return Failf("%s: exit status %d for a grammar with only shift/reduce or reduce/reduce conflicts (stderr %q)", mode, r.Exit, tail(r.Stderr))
			}
		default:
			if reported >= 0 {
				return Failf("%s: conflict-free grammar reported as conflicting (%d)", mode, reported)
			}
			if r.Exit != 0 {
				return Failf("%s: conflict-free grammar, exit status %d (stdout %q stderr %q)", mode, r.Exit, r.Stdout, tail(r.Stderr))
			}
		}
	}
	// classification
	nul := false
	for _, b := range cf.Nullable() {
		nul = nul || b
	}
	switch {
	case conf.AcceptReduce:
		cx.Ev.Class("accept_reduce")
	case conf.States > 0:
		cx.Ev.Class("conflicting")
		if conf.SR > 0 {
			cx.Ev.Class("has_shift_reduce")
		}
		if conf.RR > 0 {
			cx.Ev.Class("has_reduce_reduce")
		}
		if conf.ThreeWay > 0 {
			cx.Ev.Class("has_three_way")
		}
	default:
		cx.Ev.Class("conflict_free")
	}
	if conf.States > 0 || conf.AcceptReduce || nul || len(lr.States) >= 8 {
		src := c.G.Source()
		cx.Ev.NonTrivial(ev.Hash(src), func() any {
			return map[string]any{"grammar": src, "lr1_states": len(lr.States), "conflict_states": conf.States, "accept_reduce": conf.AcceptReduce, "with_lexer": c.WithLex}
		})
	}
	return nil
}

func tail(s string) string {
	if len(s) > 300 {
		return "…" + s[len(s)-300:]
	}
	return s
}

var PropC04 = Prop[C04Case]{ID: "C04", Gen: genC04, Check: checkC04}

var _ = fmt.Sprint

package props

import (
	"fmt"
	"os"
	"path/filepath"
	"regexp"
	"strings"

	"pgregory.net/rapid"
	"verif.local/h/ev"
	"verif.local/h/ex"
	"verif.local/h/gen"
	"verif.local/h/gr"
)

// C19 — markdown input is equivalent to its fenced code, positions preserved.

type C19Case struct {
	MD     string `json:"md"`     // the markdown file
	Code   string `json:"code"`   // concatenation of the contents of its fenced blocks
	Blocks int    `json:"blocks"` // number of fenced blocks
	// error arm: an illegal token was injected at ErrLine:ErrCol of the markdown file (0 = none)
	ErrLine     int      `json:"err_line"`
	ErrCol      int      `json:"err_col"`
	ErrBlock    int      `json:"err_block"`
	Flags       []string `json:"flags"`
	Rich        bool     `json:"rich"`                    // prose before a block has multi-byte runes or tabs
	Inline      bool     `json:"inline"`                  // some prose shares a line with a fence
	CRLF        bool     `json:"crlf"`                    // CR LF line ends
	File        string   `json:"file,omitempty"`          // name of the markdown file ("" = g.md)
	EndsInFence bool     `json:"ends_in_fence,omitempty"` // the closing fence is the end of the file
}

// mdNames: the property speaks of any file whose name ends in .md
var mdNames = []string{"g.md", "g.md", "g.md", "g.v1.md", "a.b.c.md", "x.bnf.md", "docs.d/g.md", "g-1_2.md", "README.md", "é.md", "my grammar.md"}

var proseWords = []string{"Grammar", "for", "the", "calculator:", "`tok`", "``x``", "é世界", "naïve", "\t", "tab\tbed", "1.", "#", "##", "* item", "> quote", "'a'", "\"s\"", "A : b ;", "<< x >>", "/* c */", "// c", "$", "|", "\r", "—", "𝔘", "~~~", "`", "a\u00a0b", "\u3000", "\f", "\v", "x\u0085y", "\u2028", "``", "`code"}

func genProse(t *rapid.T) (string, bool) {
	n := rapid.IntRange(0, 4).Draw(t, "proseLines")
	var b strings.Builder
	rich := false
	for i := 0; i < n; i++ {
		k := rapid.IntRange(0, 5).Draw(t, "proseWordsN")
		for j := 0; j < k; j++ {
			w := rapid.SampledFrom(proseWords).Draw(t, "proseWord")
			if j > 0 {
				b.WriteString(" ")
			}
			b.WriteString(w)
			if strings.Contains(w, "\t") || !isASCIIString(w) {
				rich = true
			}
		}
		b.WriteString("\n")
	}
	s := b.String()
	// never a triple backtick in prose
	for strings.Contains(s, "```") {
		s = strings.ReplaceAll(s, "```", "`` `")
	}
	return s, rich
}

// inlineProse is prose that shares a line with a fence: before an opening
// fence ("see: ```") or right after a closing one ("```, and so on").
func inlineProse(t *rapid.T, after bool) string {
	if rapid.IntRange(0, 2).Draw(t, "inlineProse") != 0 {
		return ""
	}
	if after {
		return rapid.SampledFrom([]string{", and", " then", ".", "; é", "x", "\t(end)", " `q`", "—"}).Draw(t, "proseAfterFence")
	}
	return rapid.SampledFrom([]string{"see: ", "Grammar:", "é世 ", "1.\t", "`x` ", "> "}).Draw(t, "proseBeforeFence")
}

func isASCIIString(s string) bool {
	for i := 0; i < len(s); i++ {
		if s[i] >= 0x80 {
			return false
		}
	}
	return true
}

func genC19(t *rapid.T) C19Case {
	g := genAnyGrammar(t, false)
	if len(g.Prods) > 0 && rapid.Bool().Draw(t, "withActions") {
		gen.AddActions(t, g, gen.SynOpts{NoTokCast: true})
	}
	toks := g.TokenList()
	texts := make([]string, len(toks))
	for i, tk := range toks {
		texts[i] = tk.Text
	}
	c := C19Case{}
	if len(g.Prods) > 0 {
		c.Flags = []string{"-a"}
	}
	// error arm: inject "$" before token k
	inject := -1
	if rapid.IntRange(0, 2).Draw(t, "errorArm") == 0 && len(texts) > 0 {
		inject = rapid.IntRange(0, len(texts)).Draw(t, "injectAt")
		texts = append(append(append([]string{}, texts[:inject]...), "$"), texts[inject:]...)
	}
	// split at token boundaries into 1..5 chunks
	nb := rapid.IntRange(1, 5).Draw(t, "blocks")
	if nb > len(texts) {
		nb = len(texts)
	}
	if nb < 1 {
		nb = 1
	}
	cuts := map[int]bool{}
	if nb > 1 {
		cs := rapid.SliceOfNDistinct(rapid.IntRange(1, len(texts)-1), nb-1, nb-1, rapid.ID[int]).Draw(t, "cuts")
		for _, x := range cs {
			cuts[x] = true
		}
	}
	var md, code strings.Builder
	line, col := 1, 1 // position in md (columns count characters)
	emit := func(s string, alsoCode bool) {
		md.WriteString(s)
		if alsoCode {
			code.WriteString(s)
		}
		for _, r := range s {
			if r == '\n' {
				line++
				col = 1
			} else {
				col++
			}
		}
	}
	block := 0
	p, rich := genProse(t)
	c.Rich = c.Rich || rich
	emit(p, false)
	emit(inlineProse(t, false), false)
	emit("```\n", false)
	block = 1
	for i, tx := range texts {
		if cuts[i] {
			if !strings.HasSuffix(md.String(), "\n") {
				emit("\n", true)
			}
			emit("```", false)
			if rapid.IntRange(0, 3).Draw(t, "closeAndOpenOnOneLine") == 0 {
				// one line closes a block, says a few words and opens the next block
				emit(rapid.SampledFrom([]string{" and then ", " é ", " (cont.) ", ", ", " `x` "}).Draw(t, "between"), false)
				c.Inline = true
				emit("```\n", false)
				block++
			} else {
				if ip := inlineProse(t, true); ip != "" {
					emit(ip, false)
					c.Inline = true
				}
				emit("\n", false)
				p, rich := genProse(t)
				if p == "" {
					p = "\n" // fences are surrounded by prose / separated by at least a line break
				}
				if rapid.IntRange(0, 39).Draw(t, "hugeLine") == 0 {
					// one unwrapped paragraph of about 70 kB
					p += strings.Repeat("lorem ipsum é ", 5000) + "\n"
				}
				c.Rich = c.Rich || rich
				emit(p, false)
				if ip := inlineProse(t, false); ip != "" {
					emit(ip, false)
					c.Inline = true
				}
				emit("```\n", false)
				block++
			}
		}
		if i == inject {
			c.ErrLine, c.ErrCol, c.ErrBlock = line, col, block
		}
		emit(tx, true)
		// separator inside code
		sep := rapid.SampledFrom([]string{" ", "\n", "  ", " \n", "\t"}).Draw(t, "codeSep")
		emit(sep, true)
	}
	if !strings.HasSuffix(md.String(), "\n") {
		emit("\n", true)
	}
	emit("```", false)
	switch rapid.IntRange(0, 5).Draw(t, "fileEnd") {
	case 0: // the closing fence is the end of the file
		c.EndsInFence = true
	case 1:
		emit("\n", false)
	default:
		if ip := inlineProse(t, true); ip != "" {
			emit(ip, false)
			c.Inline = true
		}
		emit("\n", false)
		p, _ = genProse(t)
		if rapid.IntRange(0, 3).Draw(t, "noFinalNewline") == 0 {
			p = strings.TrimSuffix(p, "\n")
		}
		emit(p, false)
	}
	c.File = rapid.SampledFrom(mdNames).Draw(t, "fileName")
	c.MD, c.Code, c.Blocks = md.String(), code.String(), block
	if rapid.IntRange(0, 4).Draw(t, "crlf") == 0 {
		// the whole file with CR LF line ends: lines and columns are unchanged
		// (the CR is the last character of its line)
		c.MD = strings.ReplaceAll(c.MD, "\n", "\r\n")
		c.Code = strings.ReplaceAll(c.Code, "\n", "\r\n")
		c.CRLF = true
	}
	return c
}

// blank is the harness's own rendering of what the property says gocc sees:
// everything outside the fenced blocks, and the fences, replaced by blanks
// (one per character), line breaks kept.
func blank(md string) string {
	var b strings.Builder
	for i, seg := range strings.Split(md, "```") {
		if i > 0 {
			b.WriteString("   ")
		}
		if i%2 == 1 {
			b.WriteString(seg) // code
			continue
		}
		for _, r := range seg {
			if r == '\n' {
				b.WriteRune('\n')
			} else {
				b.WriteRune(' ')
			}
		}
	}
	return b.String()
}

var posRe = regexp.MustCompile(`@ (\d+):(\d+)`)

func checkC19(cx *Ctx, c C19Case) *Failure {
	cx.Ev.Eval()
	type run struct {
		name, file, content string
	}
	mdFile := c.File
	if mdFile == "" {
		mdFile = "g.md"
	}
	runs := []run{{"md", mdFile, c.MD}, {"code", "g.bnf", c.Code}, {"blanked", "g.bnf", blank(c.MD)}}
	var res [3]ex.Result
	var files [3]map[string][]byte
	for i, r := range runs {
		dir, err := cx.Env.Root("c19_" + r.name)
		if err != nil {
			return Failf("INFRA: %v", err)
		}
		if err := os.MkdirAll(filepath.Dir(filepath.Join(dir, r.file)), 0o755); err != nil {
			return Failf("INFRA: %v", err)
		}
		if err := os.WriteFile(filepath.Join(dir, r.file), []byte(r.content), 0o644); err != nil {
			return Failf("INFRA: %v", err)
		}
		args := append(append([]string{}, c.Flags...), "-o", "out", r.file)
		res[i] = cx.Env.Run(dir, nil, args...)
		if res[i].CPULimit {
			cx.Ev.Class("cpu_limit")
			return nil
		}
		files[i] = ex.GoFiles(filepath.Join(dir, "out"))
	}
	for i := 1; i < 3; i++ {
		if res[0].Exit != res[i].Exit {
			return Failf("markdown file %q:\n%q\nexits %d (%s); its %s form:\n%q\nexits %d (%s)", mdFile, c.MD, res[0].Exit, tail(res[0].Stdout), runs[i].name, runs[i].content, res[i].Exit, tail(res[i].Stdout))
		}
		if d := ex.DiffFiles(files[0], files[i]); d != "" {
			return Failf("markdown file:\n%q\nand its %s form:\n%q\ngenerate different packages: %s", c.MD, runs[i].name, runs[i].content, d)
		}
	}
	// diagnostics of the blanked form carry the same positions
	pm, pb := posRe.FindString(res[0].Stdout), posRe.FindString(res[2].Stdout)
	if pm != pb {
		return Failf("markdown file:\n%q\ndiagnostic position %q; the same text with prose blanked out gives %q", c.MD, pm, pb)
	}
	if c.ErrLine > 0 {
		if res[0].Exit == 0 {
			return Failf("markdown file:\n%q\nhas an illegal token at %d:%d but gocc exited 0", c.MD, c.ErrLine, c.ErrCol)
		}
		want := fmt.Sprintf("@ %d:%d", c.ErrLine, c.ErrCol)
		if pm != want {
			return Failf("markdown file:\n%q\nthe illegal token is at %d:%d of the file, the diagnostic says %q:\n%s", c.MD, c.ErrLine, c.ErrCol, pm, tail(res[0].Stdout))
		}
		cx.Ev.Class("error_arm")
		if c.ErrBlock > 1 {
			cx.Ev.Class("error_not_in_first_block")
		}
	}
	if c.Blocks >= 2 {
		cx.Ev.Class("multi_block")
	}
	if c.Rich {
		cx.Ev.Class("rich_prose")
	}
	if c.Inline {
		cx.Ev.Class("prose_on_a_fence_line")
	}
	if c.CRLF {
		cx.Ev.Class("crlf_line_ends")
	}
	if c.EndsInFence {
		cx.Ev.Class("file_ends_with_the_closing_fence")
	}
	if mdFile != "g.md" {
		cx.Ev.Class("file_name_other_than_g.md")
	}
	if c.Blocks >= 2 && c.Rich && (c.ErrLine == 0 || c.ErrBlock > 1) {
		cx.Ev.NonTrivial(ev.Hash(c.MD), func() any {
			return map[string]any{"markdown": c.MD, "blocks": c.Blocks, "error_at": fmt.Sprintf("%d:%d", c.ErrLine, c.ErrCol), "exit": res[0].Exit}
		})
	}
	return nil
}

var PropC19 = Prop[C19Case]{ID: "C19", Gen: genC19, Check: checkC19}

var _ = gr.Lit

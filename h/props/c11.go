package props

import (
	"fmt"
	"os"
	"path/filepath"
	"strings"

	"pgregory.net/rapid"
	"verif.local/h/cfg"
	"verif.local/h/ev"
	"verif.local/h/ex"
	"verif.local/h/gen"
	"verif.local/h/gr"
	"verif.local/h/spec"
)

// C11 — generation is deterministic.

type C11Case struct {
	G     *gr.Grammar `json:"g"`
	Flags []string    `json:"flags"`
	// Src, when set, is the grammar text to use instead of G.Source(): a damaged
	// (ill-formed) variant. Rejections must be deterministic too.
	Src string `json:"src,omitempty"`
}

var presentationFlags = []string{"-a", "-zip", "-no_lexer", "-debug_lexer", "-debug_parser", "-v"}

func genFlags(t *rapid.T, hasSyntax bool) []string {
	var out []string
	for _, f := range presentationFlags {
		p := 3
		if hasSyntax && (f == "-a" || f == "-zip") {
			p = 1 // conflict resolution and the encoded tables are where order can leak
		}
		if rapid.IntRange(0, p).Draw(t, "flag"+f) == 0 {
			out = append(out, f)
		}
	}
	// -no_lexer and -debug_lexer exclude each other
	has := func(x string) bool {
		for _, f := range out {
			if f == x {
				return true
			}
		}
		return false
	}
	if has("-no_lexer") && has("-debug_lexer") {
		var o2 []string
		for _, f := range out {
			if f != "-debug_lexer" {
				o2 = append(o2, f)
			}
		}
		out = o2
	}
	return out
}

func genAnyGrammar(t *rapid.T, big bool) *gr.Grammar {
	lo := gen.DefaultLexOpts()
	so := gen.SynOpts{ErrorAlts: rapid.IntRange(0, 2).Draw(t, "errorAlts") == 0, Chains: true}
	if big {
		lo.MaxTokens, lo.MaxRegs = 8, 4
		so.MaxNT, so.MaxTerms = 8, 8
	}
	switch rapid.IntRange(0, 3).Draw(t, "grammarKind") {
	case 0:
		return gen.LexGrammar(lo).Draw(t, "lexGrammar")
	case 1:
		return gen.SynGrammar(so).Draw(t, "synGrammar")
	default:
		return gen.Combined(lo, so).Draw(t, "combined")
	}
}

func genC11(t *rapid.T) C11Case {
	g := genAnyGrammar(t, true)
	c := C11Case{G: g, Flags: genFlags(t, len(g.Prods) > 0)}
	if rapid.IntRange(0, 3).Draw(t, "damaged") == 0 {
		if rapid.Bool().Draw(t, "syntaxOnlyBase") {
			// named tokens stay undefined: several diagnostics of different
			// severity are produced in one run
			g = gen.SynGrammar(gen.SynOpts{MaxNT: 6, MaxTerms: 8}).Draw(t, "damagedBase")
			c.G = g
		}
		base := g.TokenList()
		toks := make([]string, len(base))
		for i, b := range base {
			toks[i] = b.Text
		}
		var muts []string
		// an undefined production more often than chance would give
		if rapid.Bool().Draw(t, "undefinedProd") {
			var refs []int
			for i := range toks {
				if spec.ClassOfText(toks[i]) == "prodId" && i+1 < len(toks) && toks[i+1] != ":" {
					refs = append(refs, i)
				}
			}
			if len(refs) > 0 {
				i := rapid.SampledFrom(refs).Draw(t, "undefAt")
				toks[i] = rapid.SampledFrom(undefinedProdNames).Draw(t, "undefName")
				muts = append(muts, "undefined production")
			}
		}
		n := rapid.IntRange(0, 2).Draw(t, "nDamage")
		for k := 0; k < n || len(muts) == 0; k++ {
			toks, muts = mutateGrammar(t, toks, muts)
			if k > 6 {
				break
			}
		}
		c.Src = strings.Join(toks, " ") + "\n"
	}
	return c
}

func conflictLine(stdout string) string {
	if m := conflictRe.FindString(stdout); m != "" {
		return m
	}
	return ""
}

func checkC11(cx *Ctx, c C11Case) *Failure {
	src := c.G.Source()
	if c.Src != "" {
		src = c.Src
		cx.Ev.Class("damaged_grammar")
	}
	cx.Ev.Eval()
	runs := 4
	if os.Getenv("VERIF_TIER") == "thorough" {
		runs = 8
	}
	procs := []string{"1", "2", "16", "", "3", "7", "", "1"}
	var first map[string][]byte
	var firstRes ex.Result
	for i := 0; i < runs; i++ {
		dir, err := cx.Env.Root(fmt.Sprintf("c11_%d", i))
		if err != nil {
			return Failf("INFRA: %v", err)
		}
		if err := os.WriteFile(filepath.Join(dir, "g.bnf"), []byte(src), 0o644); err != nil {
			return Failf("INFRA: %v", err)
		}
		args := append(append([]string{}, c.Flags...), "-o", "out", "g.bnf")
		var env []string
		if procs[i] != "" {
			env = []string{"GOMAXPROCS=" + procs[i]}
		}
		r := cx.Env.Run(dir, env, args...)
		if r.CPULimit {
			cx.Ev.Class("cpu_limit")
			return nil // C09's business
		}
		files := ex.GoFiles(filepath.Join(dir, "out"))
		if i == 0 {
			first, firstRes = files, r
			continue
		}
		if r.Exit != firstRes.Exit {
			return Failf("grammar:\n%s\nflags %v: run 1 exited %d, run %d exited %d", src, c.Flags, firstRes.Exit, i+1, r.Exit)
		}
		if conflictLine(r.Stdout) != conflictLine(firstRes.Stdout) {
			return Failf("grammar:\n%s\nflags %v: run 1 announced %q, run %d announced %q", src, c.Flags, conflictLine(firstRes.Stdout), i+1, conflictLine(r.Stdout))
		}
		if d := ex.DiffFiles(first, files); d != "" {
			return Failf("grammar:\n%s\nflags %v: generated packages of run 1 and run %d differ: %s", src, c.Flags, i+1, d)
		}
	}
	if firstRes.Exit == 0 {
		cx.Ev.Class("exit0")
	} else {
		cx.Ev.Class("exit_nonzero")
	}
	if len(first) == 0 {
		return nil
	}
	// non-trivial: >= 3 terminals with multi-element lookahead sets or >= 3 token ids
	nt := len(c.G.TokenNames()) >= 3
	if len(c.G.Prods) > 0 {
		if cf, err := cfg.FromGrammar(c.G); err == nil && len(cf.Terms) >= 4 {
			for _, f := range cf.First() {
				if len(f) >= 2 {
					nt = true
				}
			}
		}
	}
	if strings.Contains(strings.Join(c.Flags, " "), "-a") && conflictLine(firstRes.Stdout) != "" {
		cx.Ev.Class("conflicting_with_-a")
	}
	if nt {
		cx.Ev.NonTrivial(ev.Hash(src, strings.Join(c.Flags, " ")), func() any {
			return map[string]any{"grammar": src, "flags": c.Flags, "files": len(first), "exit": firstRes.Exit}
		})
	}
	return nil
}

var PropC11 = Prop[C11Case]{ID: "C11", Gen: genC11, Check: checkC11}

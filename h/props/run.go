// Package props holds the property bodies of the E-exec engine (gocc is run as
// a child process; nothing is compiled) and the generic plumbing that turns a
// property into: a rapid check, a replayable case and evidence counters.
package props

import (
	"encoding/json"
	"fmt"
	"os"
	"path/filepath"
	"strconv"
	"testing"

	"pgregory.net/rapid"
	"verif.local/h/ev"
	"verif.local/h/ex"
)

// Ctx is handed to every check.
type Ctx struct {
	Env *ex.Env
	Ev  *ev.Collector
}

// Failure describes a violation on one case.
type Failure struct {
	Msg string
}

func Failf(format string, a ...any) *Failure { return &Failure{Msg: fmt.Sprintf(format, a...)} }

// Prop is one property over cases of type C.
type Prop[C any] struct {
	ID    string
	Gen   func(t *rapid.T) C
	Check func(cx *Ctx, c C) *Failure
}

// ReplayFile is the on-disk form of a failing case.
type ReplayFile struct {
	Property string          `json:"property"`
	Engine   string          `json:"engine"`
	Case     json.RawMessage `json:"case"`
	Msg      string          `json:"msg"`
	Seed     string          `json:"seed,omitempty"`
}

func shard() string {
	if s := os.Getenv("VERIF_SHARD"); s != "" {
		return s
	}
	return "0"
}

// Run executes the property under rapid, or replays VERIF_REPLAY.
func Run[C any](t *testing.T, p Prop[C]) {
	env, err := ex.FromEnv("x" + shard())
	if err != nil {
		t.Skip(err.Error())
	}
	col := ev.New(p.ID)
	cx := &Ctx{Env: env, Ev: col}
	statsPath := os.Getenv("VERIF_STATS")
	bestSize := -1
	var bestPath string
	var bestMsg string
	defer func() {
		if bestPath != "" {
			col.Violation(ev.Violation{Msg: bestMsg, Replay: bestPath, Size: bestSize})
		}
		if statsPath != "" {
			if err := col.Write(statsPath); err != nil {
				t.Errorf("writing stats: %v", err)
			}
		}
	}()
	if rp := os.Getenv("VERIF_REPLAY"); rp != "" {
		b, err := os.ReadFile(rp)
		if err != nil {
			t.Fatalf("INFRA: %v", err)
		}
		var rf ReplayFile
		if err := json.Unmarshal(b, &rf); err != nil {
			t.Fatalf("INFRA: %v", err)
		}
		var c C
		if err := json.Unmarshal(rf.Case, &c); err != nil {
			t.Fatalf("INFRA: %v", err)
		}
		col.Eval()
		if f := p.Check(cx, c); f != nil {
			col.Violation(ev.Violation{Msg: f.Msg, Replay: rp})
			t.Fatalf("replay fails: %s", f.Msg)
		}
		return
	}
	outDir := os.Getenv("VERIF_REPLAY_OUT")
	rapid.Check(t, func(rt *rapid.T) {
		c := p.Gen(rt)
		if f := p.Check(cx, c); f != nil {
			cb, _ := json.Marshal(c)
			if outDir != "" && (bestSize < 0 || len(cb) <= bestSize) {
				rf := ReplayFile{Property: p.ID, Engine: "exec", Case: cb, Msg: f.Msg, Seed: os.Getenv("VERIF_SEED")}
				b, _ := json.MarshalIndent(&rf, "", " ")
				path := filepath.Join(outDir, p.ID+"-"+ev.Hash(string(cb))+".json")
				if os.WriteFile(path, b, 0o644) == nil {
					if bestPath != "" && bestPath != path {
						os.Remove(bestPath)
					}
					bestSize, bestPath, bestMsg = len(cb), path, f.Msg
				}
			}
			rt.Fatalf("%s", f.Msg)
		}
	})
}

func atoi(s string, def int) int {
	if n, err := strconv.Atoi(s); err == nil {
		return n
	}
	return def
}

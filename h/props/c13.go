package props

import (
	"os"
	"path/filepath"
	"strings"
	"unicode/utf8"

	"pgregory.net/rapid"
	"verif.local/h/ev"
	"verif.local/h/ex"
	"verif.local/h/gen"
	"verif.local/h/gr"
)

// C13 — a grammar's meaning does not depend on how it is spelled.

type C13Case struct {
	G         *gr.Grammar      `json:"g"`
	Respelled string           `json:"respelled"`
	Stats     gen.RespellStats `json:"stats"`
	Flags     []string         `json:"flags"`
}

func genC13(t *rapid.T) C13Case {
	g := genAnyGrammar(t, false)
	if len(g.Prods) > 0 && rapid.IntRange(0, 2).Draw(t, "hostileLiteral") == 0 {
		// a literal with awkward content (backslashes, $, %, …) in the syntax part
		hl := gen.HostileLit(rapid.IntRange(0, gen.NumHostileLits()-1).Draw(t, "hostileIdx"))
		dup := false
		for _, l := range g.StringLits() {
			dup = dup || l == hl.Name
		}
		if !dup && !strings.ContainsAny(hl.Name, "\x00\n\r") && utf8.ValidString(hl.Name) {
			g.Prods[0].Alts = append(g.Prods[0].Alts, gr.Alt_{Syms: []gr.Sym{hl, hl}})
		}
	}
	if len(g.Prods) > 0 && rapid.Bool().Draw(t, "withActions") {
		gen.AddActions(t, g, gen.SynOpts{NoTokCast: true})
	}
	txt, st := gen.Respell(t, g.TokenList())
	var flags []string
	if len(g.Prods) > 0 {
		flags = append(flags, "-a")
	}
	return C13Case{G: g, Respelled: txt, Stats: st, Flags: flags}
}

func checkC13(cx *Ctx, c C13Case) *Failure {
	canon := c.G.Source()
	cx.Ev.Eval()
	var res [2]ex.Result
	var files [2]map[string][]byte
	for i, src := range []string{canon, c.Respelled} {
		dir, err := cx.Env.Root([]string{"c13a", "c13b"}[i])
		if err != nil {
			return Failf("INFRA: %v", err)
		}
		if err := os.WriteFile(filepath.Join(dir, "g.bnf"), []byte(src), 0o644); err != nil {
			return Failf("INFRA: %v", err)
		}
		args := append(append([]string{}, c.Flags...), "-o", "out", "g.bnf")
		res[i] = cx.Env.Run(dir, nil, args...)
		if res[i].CPULimit {
			cx.Ev.Class("cpu_limit")
			return nil
		}
		files[i] = ex.GoFiles(filepath.Join(dir, "out"))
	}
	if res[0].Exit != res[1].Exit {
		return Failf("canonical spelling:\n%s\nexits %d (%s); respelled:\n%q\nexits %d (%s)", canon, res[0].Exit, tail(res[0].Stdout+res[0].Stderr), c.Respelled, res[1].Exit, tail(res[1].Stdout+res[1].Stderr))
	}
	if d := ex.DiffFiles(files[0], files[1]); d != "" {
		return Failf("canonical spelling:\n%s\nrespelled:\n%q\ngenerated packages differ: %s", canon, c.Respelled, d)
	}
	if res[0].Exit == 0 {
		cx.Ev.Class("exit0")
	} else {
		cx.Ev.Class("exit_nonzero")
	}
	if c.Stats.Comments > 0 {
		cx.Ev.Class("has_comment")
	}
	if c.Stats.ReencodedHigh > 0 {
		cx.Ev.Class("reencoded_high_or_control")
	}
	if c.Stats.QuoteSwitches > 0 {
		cx.Ev.Class("quote_switch")
	}
	if res[0].Exit == 0 && c.Stats.Comments > 0 && (c.Stats.ReencodedHigh > 0 || c.Stats.QuoteSwitches > 0) {
		cx.Ev.NonTrivial(ev.Hash(c.Respelled), func() any {
			return map[string]any{"canonical": canon, "respelled": c.Respelled, "stats": c.Stats}
		})
	}
	return nil
}

var PropC13 = Prop[C13Case]{ID: "C13", Gen: genC13, Check: checkC13}

module verif.local/h

go 1.24

require pgregory.net/rapid v1.3.0

// Package bprops holds the property bodies that run inside a batch binary,
// next to the compiled generated lexers and parsers.
package bprops

import (
	"encoding/json"
	"fmt"
	"os"
	"runtime"
	"runtime/debug"
	"strings"
	"testing"
	"time"

	"pgregory.net/rapid"
	"verif.local/h/batch"
	"verif.local/h/ev"
	"verif.local/h/subj"
)

type runner struct {
	t     *testing.T
	prop  string
	items []*batch.Item // live items only
	col   *ev.Collector
	rec   *ev.Recorder
	known map[string]bool
	tier  string
}

type propFn struct {
	// prepare builds per-run state; returns the rapid property and a replay
	// function evaluating one recorded case.
	run func(r *runner)
}

var table = map[string]func(r *runner){}

// Main is the single test of a batch binary.
func Main(t *testing.T) {
	prop := os.Getenv("VERIF_PROP")
	if prop == "" {
		t.Skip("VERIF_PROP not set")
	}
	all, err := batch.LoadCorpus(os.Getenv("VERIF_CORPUS"))
	if err != nil {
		t.Fatalf("INFRA: %v", err)
	}
	r := &runner{t: t, prop: prop, col: ev.New(prop), known: map[string]bool{}, tier: os.Getenv("VERIF_TIER")}
	for _, it := range all {
		if it.Dropped == "" {
			if _, ok := subj.Registry[it.Index]; !ok {
				t.Fatalf("INFRA: grammar %d not registered", it.Index)
			}
			r.items = append(r.items, it)
		} else {
			r.col.Class("dropped:" + classOfDrop(it.Dropped))
		}
	}
	for _, k := range splitComma(os.Getenv("VERIF_KNOWN_CLASSES")) {
		r.known[k] = true
	}
	r.rec = &ev.Recorder{Dir: os.Getenv("VERIF_REPLAY_OUT"), Prop: prop, Engine: "batch", Seed: os.Getenv("VERIF_SEED")}
	statsPath := os.Getenv("VERIF_STATS")
	defer func() {
		r.rec.Flush(r.col)
		if statsPath != "" {
			if err := r.col.Write(statsPath); err != nil {
				t.Errorf("INFRA: writing stats: %v", err)
			}
		}
	}()
	f, ok := table[prop]
	if !ok {
		t.Fatalf("INFRA: no batch property %q", prop)
	}
	if len(r.items) == 0 {
		t.Fatalf("INFRA: no grammar survived into the batch")
	}
	f(r)
}

func classOfDrop(s string) string {
	if len(s) >= 10 && s[:10] == "build-fail" {
		return "build-fail"
	}
	return s
}

func splitComma(s string) []string {
	var out []string
	cur := ""
	for _, c := range s {
		if c == ',' {
			if cur != "" {
				out = append(out, cur)
			}
			cur = ""
		} else {
			cur += string(c)
		}
	}
	if cur != "" {
		out = append(out, cur)
	}
	return out
}

// check runs prop under rapid (or replays VERIF_REPLAY through replay).
// gen draws a case; eval returns "" when the property held.
func check[C any](r *runner, gen func(rt *rapid.T) C, eval func(c C) string) {
	if rp := os.Getenv("VERIF_REPLAY"); rp != "" {
		var c C
		if _, err := ev.LoadReplay(rp, &c); err != nil {
			r.t.Fatalf("INFRA: %v", err)
		}
		if msg := guarded(eval, c); msg != "" {
			if strings.HasPrefix(msg, "INFRA:") || strings.HasPrefix(msg, "HANG") {
				r.t.Fatalf("INFRA: %s", msg)
			}
			r.col.Violation(ev.Violation{Msg: msg, Replay: rp})
			r.t.Fatalf("replay fails: %s", msg)
		}
		return
	}
	rapid.Check(r.t, func(rt *rapid.T) {
		c := gen(rt)
		if msg := guarded(eval, c); msg != "" {
			if strings.HasPrefix(msg, "INFRA:") {
				rt.Fatalf("%s", msg)
			}
			cb, _ := json.Marshal(c)
			r.rec.Record(cb, msg)
			if len(msg) >= 4 && msg[:4] == "HANG" {
				// a wedged goroutine cannot be stopped: leave. A time limit is never a
				// verdict: the driver reports the run as inconclusive (exit 2) and keeps
				// the case for inspection.
				r.col.Note("INCONCLUSIVE: " + msg + " (case kept as " + r.rec.BestPath + ")")
				r.col.Write(os.Getenv("VERIF_STATS"))
				fmt.Fprintln(os.Stderr, "INFRA: "+msg)
				os.Exit(3)
			}
			rt.Fatalf("%s", msg)
		}
	})
}

// watchdog bounds one case; it is far above what a case costs even on a
// saturated machine (a case takes micro- to milliseconds; C17's many rounds
// under the race detector up to a second), so only code that does not return
// at all can trip it.
var watchdog = 180 * time.Second

func init() {
	if s := os.Getenv("VERIF_WATCHDOG"); s != "" {
		if d, err := time.ParseDuration(s); err == nil {
			watchdog = d
		}
	}
}

// guarded evaluates one case with a watchdog: generated code that never
// returns would otherwise wedge the whole batch.
func guarded[C any](eval func(c C) string, c C) string {
	type res struct{ msg string }
	ch := make(chan res, 1)
	go func() {
		defer func() {
			if p := recover(); p != nil {
				// a panic here is in the harness itself (panics of generated code are
				// caught inside the glue): never a verdict about gocc
				ch <- res{fmt.Sprintf("INFRA: harness panic while evaluating the case: %v\n%s", p, debug.Stack())}
			}
		}()
		ch <- res{eval(c)}
	}()
	select {
	case x := <-ch:
		return x.msg
	case <-time.After(watchdog):
		buf := make([]byte, 1<<18)
		n := runtime.Stack(buf, true)
		return fmt.Sprintf("HANG: the generated code did not return within %v on this case\n%s", watchdog, buf[:n])
	}
}

package bprops

import (
	"fmt"
	"sort"
	"strings"

	"pgregory.net/rapid"
	"verif.local/h/batch"
	"verif.local/h/cfg"
	"verif.local/h/ev"
	"verif.local/h/gen"
	"verif.local/h/gr"
	"verif.local/h/subj"
)

// ParseCase is a replayable case of the parser properties.
type ParseCase struct {
	Index    int                 `json:"index"`
	G        *gr.Grammar         `json:"g"`
	Flags    []string            `json:"flags"`
	Variants map[string][]string `json:"variants,omitempty"`
	Toks     []string            `json:"toks"` // terminal names, "INVALID" for a non-terminal token
	Tree     *cfg.Tree           `json:"tree,omitempty"`
	FailAt   int                 `json:"fail_at"`
	Hist     []HistStep          `json:"hist,omitempty"`
}

type HistStep struct {
	Toks   []string `json:"toks"`
	FailAt int      `json:"fail_at"`
}

type parseUnit struct {
	it      *batch.Item
	c       *cfg.CFG
	e       *cfg.Earley
	lr      *cfg.LR1
	d       *cfg.Deriver // derivations without error alternatives
	eNoErr  *cfg.Earley  // recogniser of the grammar without its error alternatives
	ps      subj.Parser
	src     string
	conf    cfg.Conflicts
	specMap map[string]*gr.ActSpec
	// grammar traits
	hasEmpty, recursive, hasErrAlt, allProductive bool
	deepPats     []gen.DeepPattern
	deepPatsDone bool
}

func (u *parseUnit) deepPatterns() []gen.DeepPattern {
	if !u.deepPatsDone {
		u.deepPats, u.deepPatsDone = gen.DeepPatterns(u.c, u.e), true
	}
	return u.deepPats
}

func parseUnits(r *runner, needLR bool) []*parseUnit {
	var us []*parseUnit
	for _, it := range r.items {
		c, err := cfg.FromGrammar(it.G)
		if err != nil {
			r.t.Fatalf("INFRA: cfg for grammar %d: %v", it.Index, err)
		}
		s := subj.Registry[it.Index]
		if s.Parser == nil {
			r.t.Fatalf("INFRA: grammar %d has no parser", it.Index)
		}
		u := &parseUnit{it: it, c: c, e: cfg.NewEarley(c), d: cfg.NewDeriver(c, true), ps: s.Parser, src: it.G.Source()}
		if needLR {
			lr, err := cfg.BuildLR1(c)
			if err != nil {
				r.col.Class("grammar_model_too_large")
				continue
			}
			u.lr = lr
			u.conf = lr.Conflicts()
		}
		for _, p := range c.Prods[1:] {
			if len(p.Body) == 0 {
				u.hasEmpty = true
			}
			if p.IsErr {
				u.hasErrAlt = true
			}
		}
		if u.hasErrAlt {
			u.eNoErr = cfg.NewEarley(c.WithoutErrorAlts())
		}
		u.recursive = isRecursive(c)
		u.allProductive = c.AllProductive()
		us = append(us, u)
	}
	if len(us) == 0 {
		r.t.Fatalf("INFRA: no usable grammar in the batch")
	}
	return us
}

func isRecursive(c *cfg.CFG) bool {
	// a nonterminal that reaches itself
	n := len(c.NTs)
	reach := make([][]bool, n)
	for i := range reach {
		reach[i] = make([]bool, n)
	}
	for _, p := range c.Prods {
		for _, s := range p.Body {
			if !c.IsTerm(s) {
				reach[p.Head][c.NTIndex(s)] = true
			}
		}
	}
	for k := 0; k < n; k++ {
		for i := 0; i < n; i++ {
			for j := 0; j < n; j++ {
				if reach[i][k] && reach[k][j] {
					reach[i][j] = true
				}
			}
		}
	}
	for i := 0; i < n; i++ {
		if reach[i][i] {
			return true
		}
	}
	return false
}

func punitOf(us []*parseUnit, idx int) *parseUnit {
	for _, u := range us {
		if u.it.Index == idx {
			return u
		}
	}
	return us[0]
}

func (u *parseUnit) names(toks []int) []string {
	out := make([]string, len(toks))
	for i, t := range toks {
		if t < 0 {
			out[i] = "INVALID"
		} else {
			out[i] = u.c.Terms[t]
		}
	}
	return out
}

func (u *parseUnit) ids(names []string) []int {
	out := make([]int, len(names))
	for i, n := range names {
		if n == "INVALID" || !u.c.HasTerm(n) {
			out[i] = -1
		} else {
			out[i] = u.c.Term(n)
		}
	}
	return out
}

func (u *parseUnit) ptoks(names []string) []subj.PTok {
	out := make([]subj.PTok, len(names))
	for i, n := range names {
		if n == "INVALID" {
			out[i] = subj.PTok{Type: 0, Lit: "?"}
		} else {
			lit := n
			if (i+len(names))%4 == 1 {
				lit = n + ":" + strings.Repeat("abcdefghij", 4) // a long literal
			}
			out[i] = subj.PTok{Type: u.ps.Type(n), Lit: lit}
		}
	}
	return out
}

func maxToks(r *runner) int {
	if r.tier == "thorough" {
		return 30
	}
	return 12
}

func (u *parseUnit) newCase(toks []int, tree *cfg.Tree) ParseCase {
	return ParseCase{Index: u.it.Index, G: u.it.G, Flags: u.it.Flags, Variants: u.it.Variants, Toks: u.names(toks), Tree: tree, FailAt: -1}
}

func drawParseCase(rt *rapid.T, us []*parseUnit, max, nMut, sentenceBias int) ParseCase {
	u := us[rapid.IntRange(0, len(us)-1).Draw(rt, "grammar")]
	in := gen.DrawParseInput(rt, u.c, u.d, max, nMut, sentenceBias)
	return u.newCase(in.Toks, in.Tree)
}

// drawAimed: one case in four aims at a uniformly drawn entry of the
// reference automaton's tables (followed by a random tail), the others are
// sentences / mutated sentences / random sequences.
func drawAimed(rt *rapid.T, us []*parseUnit, max, nMut, sentenceBias int) ParseCase {
	if rapid.IntRange(0, 3).Draw(rt, "aimAtEntry") == 0 {
		u := us[rapid.IntRange(0, len(us)-1).Draw(rt, "grammar")]
		if u.lr != nil {
			if toks, ok := aimAtEntry(rt, u.lr, u.c, max, false); ok {
				return u.newCase(toks, nil)
			}
		}
	}
	return drawParseCase(rt, us, max, nMut, sentenceBias)
}

func sane(u *parseUnit, c ParseCase, o subj.ParseObs) string {
	if o.Panic != "" {
		return fmt.Sprintf("grammar:\n%s\ninput %v: Parse panicked: %s", u.src, c.Toks, firstLines(o.Panic, 12))
	}
	if o.TokenModified >= 0 {
		return fmt.Sprintf("grammar:\n%s\ninput %v: the literal of token #%d, an object owned by the scanner, was modified by Parse or by rendering its error", u.src, c.Toks, o.TokenModified)
	}
	if o.Guard {
		return fmt.Sprintf("grammar:\n%s\ninput %v: Parse does not terminate (step guard: %d Scan calls, %d action calls for %d tokens)", u.src, c.Toks, o.ScanCalls, len(o.Log), len(c.Toks))
	}
	return ""
}

func firstLines(s string, n int) string {
	ls := strings.Split(s, "\n")
	if len(ls) > n {
		ls = ls[:n]
	}
	return strings.Join(ls, "\n")
}

func init() {
	table["C02"] = func(r *runner) {
		us := parseUnits(r, true)
		mx := maxToks(r)
		check(r, func(rt *rapid.T) ParseCase { return drawAimed(rt, us, mx, 2, 45) },
			func(c ParseCase) string { return evalC02(r, punitOf(us, c.Index), c) })
	}
	table["C03"] = func(r *runner) {
		us := parseUnits(r, false)
		var ok []*parseUnit
		for _, u := range us {
			if u.d.CanDerive() {
				ok = append(ok, u)
			}
		}
		if len(ok) == 0 {
			r.t.Fatalf("INFRA: no grammar with a non-empty language")
		}
		mx := maxToks(r)
		check(r, func(rt *rapid.T) ParseCase {
			u := ok[rapid.IntRange(0, len(ok)-1).Draw(rt, "grammar")]
			tr, y := u.d.Derive(rt, rapid.IntRange(1, 7).Draw(rt, "height"))
			if len(y) > mx*2 {
				tr, y = u.d.Derive(rt, 1)
			}
			c := u.newCase(y, tr)
			_, log := u.c.Eval(tr)
			if len(log) > 0 {
				c.FailAt = rapid.IntRange(0, len(log)-1).Draw(rt, "failAt")
			}
			return c
		}, func(c ParseCase) string { return evalC03(r, punitOf(us, c.Index), c) })
	}
	table["C06"] = func(r *runner) {
		us := parseUnits(r, true)
		var ok []*parseUnit
		for _, u := range us {
			if u.allProductive && !u.hasErrAlt {
				ok = append(ok, u)
			} else {
				r.col.Class("grammar_outside_domain_unproductive_or_error_alt")
			}
		}
		if len(ok) == 0 {
			r.t.Fatalf("INFRA: no reduced grammar in the batch")
		}
		mx := maxToks(r)
		check(r, func(rt *rapid.T) ParseCase { return drawAimed(rt, ok, mx, 2, 10) },
			func(c ParseCase) string { return evalC06(r, punitOf(us, c.Index), c) })
	}
	table["C05"] = func(r *runner) {
		us := parseUnits(r, true)
		mx := maxToks(r)
		check(r, func(rt *rapid.T) ParseCase {
			u := us[rapid.IntRange(0, len(us)-1).Draw(rt, "grammar")]
			if rapid.IntRange(0, 2).Draw(rt, "aimAtConflict") == 0 {
				if toks, ok := aimAtConflict(rt, u, mx); ok {
					return u.newCase(toks, nil)
				}
			}
			in := gen.DrawParseInput(rt, u.c, u.d, mx, 2, 45)
			return u.newCase(in.Toks, nil)
		}, func(c ParseCase) string { return evalSim(r, punitOf(us, c.Index), c, "C05") })
	}
	table["C07"] = func(r *runner) {
		us := parseUnits(r, true)
		mx := maxToks(r)
		check(r, func(rt *rapid.T) ParseCase { return drawParseCase(rt, us, mx, 4, 25) },
			func(c ParseCase) string { return evalSim(r, punitOf(us, c.Index), c, "C07") })
	}
	table["C16P"] = func(r *runner) {
		us := parseUnits(r, false)
		mx := maxToks(r)
		check(r, func(rt *rapid.T) ParseCase {
			u := us[rapid.IntRange(0, len(us)-1).Draw(rt, "grammar")]
			c := u.newCase(nil, nil)
			n := rapid.IntRange(2, 8).Draw(rt, "histLen")
			for i := 0; i < n; i++ {
				in := gen.DrawParseInput(rt, u.c, u.d, mx, 3, 40)
				if rapid.IntRange(0, 4).Draw(rt, "deep") == 0 {
					// a very long input: the stack grows beyond its initial capacity
					in.Toks = gen.DeepInputFrom(rt, u.c, u.deepPatterns())
					if len(in.Toks) > 4 && rapid.Bool().Draw(rt, "deepCutShort") {
						// cut short: the parse fails with a tall stack left behind
						in.Toks = in.Toks[:len(in.Toks)-rapid.IntRange(1, len(in.Toks)/3).Draw(rt, "deepCut")]
					}
				}
				st := HistStep{Toks: u.names(in.Toks), FailAt: -1}
				if i > 0 && rapid.IntRange(0, 3).Draw(rt, "relatedToPrevious") == 0 {
					// the previous input once more, or with another tail: what the
					// object remembers of positions in the last parse meets equal positions
					prev := c.Hist[i-1].Toks
					st.Toks = append([]string{}, prev...)
					if len(prev) > 1 && rapid.Bool().Draw(rt, "otherTail") {
						k := rapid.IntRange(1, len(prev)-1).Draw(rt, "keepPrefix")
						st.Toks = append(append([]string{}, prev[:k]...), u.names(in.Toks)...)
						if len(st.Toks) > 60 && len(prev) <= 60 {
							st.Toks = st.Toks[:60]
						}
					}
				}
				if rapid.IntRange(0, 4).Draw(rt, "injectFail") == 0 {
					st.FailAt = rapid.IntRange(0, 6).Draw(rt, "failAtH")
				}
				c.Hist = append(c.Hist, st)
			}
			return c
		}, func(c ParseCase) string { return evalC16P(r, punitOf(us, c.Index), c) })
	}
}

// ---------------------------------------------------------------------------

func evalC02(r *runner, u *parseUnit, c ParseCase) string {
	ids := u.ids(c.Toks)
	o := u.ps.NewSession().Parse(u.ptoks(c.Toks), -1, false)
	r.col.Eval()
	if m := sane(u, c, o); m != "" {
		return m
	}
	want := u.e.Accepts(ids)
	if o.ErrNil != want {
		verdict := map[bool]string{true: "a sentence", false: "not a sentence"}[want]
		return fmt.Sprintf("grammar:\n%s\ninput %v is %s of the grammar, but Parse returned err==nil: %v", u.src, c.Toks, verdict, o.ErrNil)
	}
	if want {
		r.col.Class("input_sentence")
	} else {
		r.col.Class("input_non_sentence")
	}
	vp := 0
	if !want {
		vp = u.e.ViablePrefixLen(ids)
	}
	if (u.hasEmpty || u.recursive) && len(ids) >= 2 && (want || vp >= 1) {
		r.col.NonTrivial(ev.Hash(u.src, strings.Join(c.Toks, " ")), func() any {
			return map[string]any{"grammar": u.src, "input": c.Toks, "sentence": want, "viable_prefix": vp}
		})
	}
	return ""
}

func logString(l []subj.CallVal) string {
	var b strings.Builder
	for _, c := range l {
		b.WriteString(c.Tag)
		b.WriteString("(")
		for i, a := range c.Args {
			if i > 0 {
				b.WriteString(",")
			}
			b.WriteString(a.String())
		}
		b.WriteString(") ")
	}
	return b.String()
}

func evalC03(r *runner, u *parseUnit, c ParseCase) string {
	if c.Tree == nil {
		return ""
	}
	wantV, wantLog := u.c.Eval(c.Tree)
	o := u.ps.NewSession().Parse(u.ptoks(c.Toks), -1, false)
	r.col.Eval()
	if m := sane(u, c, o); m != "" {
		return m
	}
	if !o.ErrNil {
		return fmt.Sprintf("grammar:\n%s\ninput %v was derived from the grammar but Parse failed", u.src, c.Toks)
	}
	if logString(o.Log) != logString(wantLog) {
		return fmt.Sprintf("grammar:\n%s\ninput %v: action calls observed:\n  %s\npost-order evaluation of the parse tree gives:\n  %s", u.src, c.Toks, logString(o.Log), logString(wantLog))
	}
	if !o.Result.Equal(wantV) {
		return fmt.Sprintf("grammar:\n%s\ninput %v: Parse returned %s, evaluating the actions over the parse tree gives %s", u.src, c.Toks, o.Result, wantV)
	}
	nred, maxArgs := c.Tree.CountReductions()
	nt := nred >= 2 && maxArgs >= 2
	if c.FailAt >= 0 && c.FailAt < len(wantLog) {
		o2 := u.ps.NewSession().Parse(u.ptoks(c.Toks), c.FailAt, false)
		r.col.Eval()
		if m := sane(u, c, o2); m != "" {
			return m
		}
		if o2.ErrNil {
			return fmt.Sprintf("grammar:\n%s\ninput %v: action call %d returned an error but Parse returned err==nil", u.src, c.Toks, c.FailAt)
		}
		if o2.Err == nil || !o2.Err.IsInjected {
			return fmt.Sprintf("grammar:\n%s\ninput %v: action call %d returned an error; the error returned by Parse does not carry it (%+v %s)", u.src, c.Toks, c.FailAt, o2.Err, o2.ErrOther)
		}
		if logString(o2.Log) != logString(wantLog[:c.FailAt+1]) {
			return fmt.Sprintf("grammar:\n%s\ninput %v: after action call %d failed the calls observed are\n  %s\nexpected exactly\n  %s", u.src, c.Toks, c.FailAt, logString(o2.Log), logString(wantLog[:c.FailAt+1]))
		}
		if o2.Result.Kind != "nil" {
			return fmt.Sprintf("grammar:\n%s\ninput %v: Parse returned a result (%s) together with an action error", u.src, c.Toks, o2.Result)
		}
		r.col.Class("action_error_injected")
		if nt {
			r.col.NonTrivial(ev.Hash("F", u.src, strings.Join(c.Toks, " "), fmt.Sprint(c.FailAt)), nil)
		}
	}
	// a second parser object at work inside one of the actions must not change
	// anything (parser objects share no state)
	if len(wantLog) > 0 {
		k := (len(c.Toks)*7 + c.FailAt + 13) % len(wantLog)
		o3 := u.ps.NewSession().ParseNested(u.ptoks(c.Toks), k, u.ptoks(c.Toks))
		r.col.Eval()
		if m := sane(u, c, o3); m != "" {
			return m + fmt.Sprintf(" (while another parser object parsed the same input inside action call %d)", k)
		}
		if !o3.ErrNil || logString(o3.Log) != logString(wantLog) || !o3.Result.Equal(wantV) {
			return fmt.Sprintf("grammar:\n%s\ninput %v: with another parser object parsing the same input inside action call %d, Parse returns err==nil: %v, %s with calls\n  %s\nexpected %s with calls\n  %s", u.src, c.Toks, k, o3.ErrNil, o3.Result, logString(o3.Log), wantV, logString(wantLog))
		}
		r.col.Class("nested_parser_object")
		// $Context is the value stored in the parser's Context field at the time
		// the action runs: replace it during the parse
		if len(wantLog) >= 2 {
			ks := (len(c.Toks)*5 + c.FailAt + 7) % (len(wantLog) - 1)
			o4, inSecond := u.ps.NewSession().ParseSwitchCtx(u.ptoks(c.Toks), ks)
			r.col.Eval()
			if m := sane(u, c, o4); m != "" {
				return m
			}
			if !o4.ErrNil || logString(o4.Log) != logString(wantLog) || inSecond != len(wantLog)-ks-1 {
				return fmt.Sprintf("grammar:\n%s\ninput %v: the parser's Context field was replaced inside action call %d of %d; the calls after it must reach the new object: %d did (expected %d); all calls:\n  %s\nexpected\n  %s", u.src, c.Toks, ks, len(wantLog), inSecond, len(wantLog)-ks-1, logString(o4.Log), logString(wantLog))
			}
			r.col.Class("context_replaced_during_parse")
		}
	}
	if nt {
		r.col.NonTrivial(ev.Hash(u.src, strings.Join(c.Toks, " ")), func() any {
			return map[string]any{"grammar": u.src, "input": c.Toks, "result": wantV.String(), "calls": logString(wantLog)}
		})
	}
	return ""
}

func evalC06(r *runner, u *parseUnit, c ParseCase) string {
	ids := u.ids(c.Toks)
	if u.e.Accepts(ids) {
		r.col.Class("input_sentence_skipped")
		return ""
	}
	// the message is rendered (twice) before the fields are read: rendering an
	// error must not change what it says was expected
	o := u.ps.NewSession().Parse(u.ptoks(c.Toks), -1, true)
	r.col.Eval()
	if m := sane(u, c, o); m != "" {
		return m
	}
	if o.ErrNil {
		return fmt.Sprintf("grammar:\n%s\ninput %v is not a sentence but Parse returned err==nil", u.src, c.Toks)
	}
	if strings.Contains(o.ErrString, "<<< a second Error() call") {
		return fmt.Sprintf("grammar:\n%s\ninput %v: %s", u.src, c.Toks, o.ErrString)
	}
	if o.Err == nil {
		return fmt.Sprintf("grammar:\n%s\ninput %v: Parse returned an error of unexpected type: %s", u.src, c.Toks, o.ErrOther)
	}
	i := u.e.ViablePrefixLen(ids) // index of the first offending token (len(ids) = end of input)
	if o.Err.ErrTok != i {
		return fmt.Sprintf("grammar:\n%s\ninput %v: the first token that cannot continue a sentence is #%d, the error carries token #%d (-2: not a token object handed out by the scanner)", u.src, c.Toks, i, o.Err.ErrTok)
	}
	exp, _ := u.e.Expected(ids[:i])
	var want []string
	for t := range exp {
		want = append(want, u.c.Terms[t])
	}
	sort.Strings(want)
	got := append([]string{}, o.Err.Expected...)
	sort.Strings(got)
	if strings.Join(got, "\x00") != strings.Join(want, "\x00") {
		return fmt.Sprintf("grammar:\n%s\ninput %v: error at token #%d lists expected %q; the terminals that can continue the prefix are %q", u.src, c.Toks, i, got, want)
	}
	if i < len(o.LogLenAtScan) && len(o.Log) != o.LogLenAtScan[i] {
		return fmt.Sprintf("grammar:\n%s\ninput %v: %d action call(s) ran with the offending token #%d as look-ahead", u.src, c.Toks, len(o.Log)-o.LogLenAtScan[i], i)
	}
	nTerms := len(u.c.Terms)
	if i >= 1 && len(want) > 1 && len(want) < nTerms {
		r.col.NonTrivial(ev.Hash(u.src, strings.Join(c.Toks, " ")), func() any {
			return map[string]any{"grammar": u.src, "input": c.Toks, "offending_token": i, "expected": want}
		})
	}
	return ""
}

// aimAtConflict builds an input that reaches a conflicted (state, terminal)
// entry of the reference automaton.
func aimAtConflict(rt *rapid.T, u *parseUnit, max int) ([]int, bool) {
	return aimAtEntry(rt, u.lr, u.c, max, true)
}

// aimAtEntry builds an input that consults one (state, terminal) entry of the
// reference automaton: a shortest symbol path to the state, each nonterminal
// on it expanded by a minimal derivation, then the terminal and a random tail.
// With onlyConflicted the entry is drawn among the conflicted ones. Drawing
// entries uniformly makes every entry of a grammar's tables get exercised,
// however rarely random sentences would reach it.
func aimAtEntry(rt *rapid.T, lr *cfg.LR1, c *cfg.CFG, max int, onlyConflicted bool) ([]int, bool) {
	type ent struct{ st, t int }
	var ents []ent
	for si, st := range lr.States {
		for t, as := range st.Acts {
			if len(as) > 1 || (!onlyConflicted && len(as) == 1) {
				ents = append(ents, ent{si, t})
			}
		}
	}
	if len(ents) == 0 {
		return nil, false
	}
	sort.Slice(ents, func(i, j int) bool {
		if ents[i].st != ents[j].st {
			return ents[i].st < ents[j].st
		}
		return ents[i].t < ents[j].t
	})
	e := ents[rapid.IntRange(0, len(ents)-1).Draw(rt, "tableEntry")]
	type back struct{ from, sym int }
	prev := map[int]back{}
	visited := map[int]bool{0: true}
	queue := []int{0}
	for len(queue) > 0 && !visited[e.st] {
		s := queue[0]
		queue = queue[1:]
		var syms []int
		for sym := range lr.States[s].Goto {
			syms = append(syms, sym)
		}
		sort.Ints(syms)
		for _, sym := range syms {
			n := lr.States[s].Goto[sym]
			if !visited[n] {
				visited[n] = true
				prev[n] = back{s, sym}
				queue = append(queue, n)
			}
		}
	}
	if !visited[e.st] {
		return nil, false
	}
	var path []int
	for s := e.st; s != 0; {
		p := prev[s]
		path = append([]int{p.sym}, path...)
		s = p.from
	}
	var toks []int
	full := cfg.NewDeriver(c, true)
	for _, sym := range path {
		if c.IsTerm(sym) {
			if c.Terms[sym] == "error" {
				return nil, false
			}
			toks = append(toks, sym)
		} else {
			y, ok := full.MinYield(c.NTIndex(sym))
			if !ok {
				return nil, false
			}
			toks = append(toks, y...)
		}
	}
	if e.t != cfg.EOF {
		if c.Terms[e.t] == "error" {
			return nil, false
		}
		toks = append(toks, e.t)
		n := rapid.IntRange(0, 3).Draw(rt, "tail")
		for k := 0; k < n; k++ {
			x := rapid.IntRange(1, len(c.Terms)-1).Draw(rt, "tailTok")
			if c.Terms[x] != "error" {
				toks = append(toks, x)
			}
		}
	}
	if len(toks) > max*3 {
		return nil, false
	}
	return toks, true
}

// evalSim compares the generated parser with the reference LR(1) machine
// (C05: conflicts resolved by the rule; C07: recovery by the rule).
func evalSim(r *runner, u *parseUnit, c ParseCase, prop string) string {
	ids := u.ids(c.Toks)
	sim := u.lr.Simulate(ids, -1)
	if sim.StepLimit {
		r.col.Class("reference_step_limit")
		// the reference machine itself loops: the grammar's resolved automaton
		// cycles without consuming input. Parse must still return (C07) — the
		// step guard decides.
	}
	o := u.ps.NewSession().Parse(u.ptoks(c.Toks), -1, false)
	r.col.Eval()
	if sim.StepLimit {
		// The resolved reference machine itself does not come to an end on this
		// input (a cycle of empty reductions, e.g. A : B A | empty ; B : empty
		// under -a): "the reductions of the resolved machine" are then an endless
		// sequence, and a parser that performs them does what the property says.
		// Only a panic is still wrong.
		r.col.Class("reference_machine_does_not_terminate")
		if o.Panic != "" {
			return sane(u, c, o)
		}
		return ""
	}
	if m := sane(u, c, o); m != "" {
		return m
	}
	if o.ErrNil != sim.Accepted {
		return fmt.Sprintf("grammar:\n%s\ninput %v: Parse returned err==nil: %v; the reference machine accepts: %v (recoveries %d)", u.src, c.Toks, o.ErrNil, sim.Accepted, sim.Recoveries)
	}
	if logString(o.Log) != logString(sim.Log) {
		return fmt.Sprintf("grammar:\n%s\ninput %v: action calls observed:\n  %s\nthe reference machine performs:\n  %s", u.src, c.Toks, logString(o.Log), logString(sim.Log))
	}
	for k := range o.Log {
		if k < len(sim.Log) {
			for a := range o.Log[k].Args {
				if a < len(sim.Log[k].Args) {
					if m := expectedMismatch(o.Log[k].Args[a], sim.Log[k].Args[a]); m != "" {
						return fmt.Sprintf("grammar:\n%s\ninput %v: call %s: %s", u.src, c.Toks, o.Log[k].Tag, m)
					}
				}
			}
		}
	}
	if sim.Accepted && !o.Result.Equal(sim.Result) {
		return fmt.Sprintf("grammar:\n%s\ninput %v: result %s, reference %s", u.src, c.Toks, o.Result, sim.Result)
	}
	if !sim.Accepted {
		if o.Err == nil {
			return fmt.Sprintf("grammar:\n%s\ninput %v: error of unexpected type %s", u.src, c.Toks, o.ErrOther)
		}
		if o.Err.ErrTok != sim.ErrTok {
			return fmt.Sprintf("grammar:\n%s\ninput %v: returned error carries token #%d, the reference machine fails at token #%d", u.src, c.Toks, o.Err.ErrTok, sim.ErrTok)
		}
	}
	if prop == "C07" {
		// (only for conflict-free grammars: with -a the resolved machine does not
		// recognise the whole language of a conflicting grammar, so a sentence
		// may legitimately run into a syntax error and recover)
		if u.eNoErr != nil && u.conf.States == 0 && u.eNoErr.Accepts(ids) {
			// inertness, decided without the reference LR machine
			if !o.ErrNil {
				return fmt.Sprintf("grammar:\n%s\ninput %v is a sentence of the grammar without its error alternatives, but Parse failed", u.src, c.Toks)
			}
			if hasErrAttr(o) {
				return fmt.Sprintf("grammar:\n%s\ninput %v is a sentence of the grammar without its error alternatives, but an error attribute reached an action: %s", u.src, c.Toks, logString(o.Log))
			}
			r.col.Class("input_sentence_without_error_alts")
		}
		if o.ScanCalls != sim.ScanCalls {
			return fmt.Sprintf("grammar:\n%s\ninput %v: %d Scan calls, the reference machine reads %d tokens", u.src, c.Toks, o.ScanCalls, sim.ScanCalls)
		}
		if m := tokenConservation(u.specs(), o); m != "" {
			return fmt.Sprintf("grammar:\n%s\ninput %v: %s", u.src, c.Toks, m)
		}
		// inertness: inputs that are sentences of the grammar without error alternatives
		if u.e != nil && sim.Recoveries == 0 && sim.Accepted {
			r.col.Class("input_error_free")
		}
		if sim.Recoveries > 0 {
			r.col.Class("input_recovered")
			if sim.ErrInErrTail {
				r.col.Class("error_inside_error_alternative")
			}
			if sim.RecStateBelow {
				r.col.Class("recovery_state_below_top")
			}
			if sim.Recoveries > 1 {
				r.col.Class("multiple_recoveries")
			}
			r.col.NonTrivial(ev.Hash(u.src, strings.Join(c.Toks, " ")), func() any {
				return map[string]any{"grammar": u.src, "input": c.Toks, "recoveries": sim.Recoveries, "accepted": sim.Accepted, "calls": logString(sim.Log)}
			})
		}
		if sim.GaveUpEOF {
			r.col.Class("gave_up_input_ended")
		}
		if sim.GaveUpNoState {
			r.col.Class("gave_up_no_recovery_state")
		}
	} else {
		if sim.UsedConflict {
			r.col.Class("consulted_conflicted_entry")
			r.col.NonTrivial(ev.Hash(u.src, strings.Join(c.Toks, " ")), func() any {
				return map[string]any{"grammar": u.src, "input": c.Toks, "accepted": sim.Accepted, "reductions": sim.Reductions}
			})
		}
	}
	return ""
}

// tokenConservation: the token objects that reach actions (directly, as
// ErrorToken or inside ErrorSymbols) appear at most once and in input order.
func tokenConservation(specs map[string]*gr.ActSpec, o subj.ParseObs) string {
	// ordered returns the arguments of a call in body order, each body
	// position once (generated actions may drop, repeat or permute arguments).
	ordered := func(tag string, args []subj.Val) ([]subj.Val, bool) {
		sp := specs[tag]
		if sp == nil || len(sp.Args) != len(args) {
			return nil, false
		}
		type ia struct {
			idx int
			v   subj.Val
		}
		var xs []ia
		seen := map[int]bool{}
		for k, a := range sp.Args {
			if !seen[a.Idx] {
				seen[a.Idx] = true
				xs = append(xs, ia{a.Idx, args[k]})
			}
		}
		sort.Slice(xs, func(i, j int) bool { return xs[i].idx < xs[j].idx })
		out := make([]subj.Val, len(xs))
		for i, x := range xs {
			out[i] = x.v
		}
		return out, true
	}
	for ci, call := range o.Log {
		last := -1
		var walk func(v subj.Val) string
		walk = func(v subj.Val) string {
			switch v.Kind {
			case "tok":
				if v.Tok == -2 {
					return "an action received a token object the scanner never returned"
				}
				if v.Tok <= last {
					return fmt.Sprintf("token #%d reaches action call %d after token #%d (repeated or out of order)", v.Tok, ci, last)
				}
				last = v.Tok
			case "node":
				args, ok := ordered(v.Tag, v.Args)
				if !ok {
					return ""
				}
				for _, a := range args {
					if m := walk(a); m != "" {
						return m
					}
				}
			case "err":
				for _, a := range v.Err.Symbols {
					if m := walk(a); m != "" {
						return m
					}
				}
				if v.Err.ErrTok == -2 {
					return "an error attribute carries a token object the scanner never returned"
				}
				if v.Err.ErrTok >= 0 {
					if v.Err.ErrTok <= last {
						return fmt.Sprintf("error token #%d after token #%d (repeated or out of order)", v.Err.ErrTok, last)
					}
					// the offending token itself may be shifted after the recovery
					last = v.Err.ErrTok - 1
				}
			}
			return ""
		}
		args, ok := ordered(call.Tag, call.Args)
		if !ok {
			continue
		}
		for _, a := range args {
			if m := walk(a); m != "" {
				return m
			}
		}
	}
	return ""
}

func firstTok(v subj.Val) int {
	switch v.Kind {
	case "tok":
		return v.Tok
	case "node":
		for _, a := range v.Args {
			if f := firstTok(a); f >= 0 {
				return f
			}
		}
	case "err":
		for _, a := range v.Err.Symbols {
			if f := firstTok(a); f >= 0 {
				return f
			}
		}
		return v.Err.ErrTok
	}
	return -1
}

// obsText is the readable counterpart of obsKey for messages.
func obsText(o subj.ParseObs) string {
	var lb strings.Builder
	for i, c := range o.Log {
		if i >= 12 {
			fmt.Fprintf(&lb, "… (%d calls)", len(o.Log))
			break
		}
		lb.WriteString(c.Tag + "(")
		for j, a := range c.Args {
			if j > 0 {
				lb.WriteString(",")
			}
			lb.WriteString(a.Short(5))
		}
		lb.WriteString(") ")
	}
	e := "nil"
	if o.Err != nil {
		e = fmt.Sprintf("tok#%d type%d injected=%v expected=%q", o.Err.ErrTok, o.Err.ErrTokType, o.Err.IsInjected, o.Err.Expected)
	}
	return fmt.Sprintf("err==nil:%v err={%s} %s result=%s calls=%s scans=%d token_modified=%d", o.ErrNil, e, o.ErrOther, o.Result.Short(5), lb.String(), o.ScanCalls, o.TokenModified)
}

func obsKey(o subj.ParseObs) string {
	e := "nil"
	if o.Err != nil {
		ex := append([]string{}, o.Err.Expected...)
		e = fmt.Sprintf("tok#%d type%d injected=%v expected=%q", o.Err.ErrTok, o.Err.ErrTokType, o.Err.IsInjected, ex)
	}
	var lb strings.Builder
	for _, c := range o.Log {
		lb.WriteString(c.Tag + "(")
		for i, a := range c.Args {
			if i > 0 {
				lb.WriteString(",")
			}
			lb.WriteString(a.Digest())
		}
		lb.WriteString(") ")
	}
	return fmt.Sprintf("errnil=%v err={%s} other=%q result=%s log=%s scans=%d panic=%v guard=%v tokmod=%d", o.ErrNil, e, o.ErrOther, o.Result.Digest(), lb.String(), o.ScanCalls, o.Panic != "", o.Guard, o.TokenModified)
}

func evalC16P(r *runner, u *parseUnit, c ParseCase) string {
	sess := u.ps.NewSession()
	interesting := false
	prevBad := false
	for i, st := range c.Hist {
		toks := u.ptoks(st.Toks)
		used := sess.Parse(toks, st.FailAt, true)
		fresh := u.ps.NewSession().Parse(toks, st.FailAt, true)
		r.col.Eval()
		if fresh.Panic != "" || fresh.Guard {
			// not this property's business (C02/C07); stop the history here
			r.col.Class("fresh_parser_panics_or_loops")
			return ""
		}
		if obsKey(used) != obsKey(fresh) || used.ErrString != fresh.ErrString {
			var hist []string
			for _, h := range c.Hist[:i] {
				hist = append(hist, fmt.Sprint(h.Toks))
			}
			return fmt.Sprintf("grammar:\n%s\nafter parsing %v with one Parser object, input %v (fail_at %d) gives\n  %s\n  %q\na fresh parser gives\n  %s\n  %q",
				u.src, hist, st.Toks, st.FailAt, obsText(used), used.ErrString, obsText(fresh), fresh.ErrString)
		}
		if prevBad {
			interesting = true
		}
		if !fresh.ErrNil || hasErrAttr(fresh) {
			prevBad = true
		}
	}
	if interesting {
		var hs []string
		for _, h := range c.Hist {
			hs = append(hs, strings.Join(h.Toks, " "))
		}
		r.col.NonTrivial(ev.Hash("P", u.src, strings.Join(hs, "|")), func() any {
			return map[string]any{"kind": "parser-history", "grammar": u.src, "history": hs}
		})
	}
	return ""
}

// expectedMismatch walks an observed value and the reference's value of the
// same shape in parallel: the expected-token list of every error attribute, as
// a set, must be the action row of the state the error occurred in or that of
// the recovery state (the property does not say which; gocc reports the latter).
func expectedMismatch(got, want subj.Val) string {
	switch {
	case got.Kind == "err" && want.Kind == "err" && got.Err != nil && want.Err != nil:
		if len(want.Err.ExpectedAlt) > 0 {
			g := append([]string{}, got.Err.Expected...)
			sort.Strings(g)
			g = uniqStrings(g)
			ok := false
			for _, alt := range want.Err.ExpectedAlt {
				if strings.Join(alt, "\x00") == strings.Join(g, "\x00") {
					ok = true
				}
			}
			if !ok {
				return fmt.Sprintf("the error attribute for token #%d lists the expected tokens %q; the action row of the state the error occurred in has %q, that of the recovery state %q", got.Err.ErrTok, got.Err.Expected, want.Err.ExpectedAlt[0], want.Err.ExpectedAlt[len(want.Err.ExpectedAlt)-1])
			}
		}
		for i := range got.Err.Symbols {
			if i < len(want.Err.Symbols) {
				if m := expectedMismatch(got.Err.Symbols[i], want.Err.Symbols[i]); m != "" {
					return m
				}
			}
		}
	case got.Kind == "node" && want.Kind == "node":
		for i := range got.Args {
			if i < len(want.Args) {
				if m := expectedMismatch(got.Args[i], want.Args[i]); m != "" {
					return m
				}
			}
		}
	}
	return ""
}

func uniqStrings(xs []string) []string {
	var out []string
	for i, x := range xs {
		if i == 0 || x != xs[i-1] {
			out = append(out, x)
		}
	}
	return out
}

func hasErrAttr(o subj.ParseObs) bool {
	for _, c := range o.Log {
		for _, a := range c.Args {
			if a.Kind == "err" {
				return true
			}
		}
	}
	return false
}

func (u *parseUnit) specs() map[string]*gr.ActSpec {
	if u.specMap == nil {
		u.specMap = map[string]*gr.ActSpec{}
		for _, p := range u.it.G.Prods {
			for i := range p.Alts {
				if sp := p.Alts[i].Spec; sp != nil && sp.Style == "rec" {
					u.specMap[sp.Tag] = sp
				}
			}
		}
	}
	return u.specMap
}

package bprops

import (
	"bytes"
	"fmt"
	"os"
	"sort"
	"strings"

	"pgregory.net/rapid"
	"verif.local/h/batch"
	"verif.local/h/cfg"
	"verif.local/h/ev"
	"verif.local/h/gen"
	"verif.local/h/gr"
	"verif.local/h/lexnfa"
	"verif.local/h/subj"
)

// C12 — presentation flags do not change the generated language: base and
// variant are compiled side by side and must behave identically.

type C12Case struct {
	Index    int                 `json:"index"`
	G        *gr.Grammar         `json:"g"`
	Flags    []string            `json:"flags"`
	Variants map[string][]string `json:"variants"`
	Src      []byte              `json:"src"`
	Toks     []string            `json:"toks"`
	FailAt   int                 `json:"fail_at"`
}

type c12Unit struct {
	it  *batch.Item
	s   *subj.Subject
	m   *lexnfa.Model
	c   *cfg.CFG
	d   *cfg.Deriver
	lr  *cfg.LR1
	src string
	big bool
}

func init() {
	table["C12"] = func(r *runner) {
		// debug variants print on stdout: silence it for the whole run
		if null, err := os.OpenFile(os.DevNull, os.O_WRONLY, 0); err == nil {
			os.Stdout = null
		}
		var us []*c12Unit
		for _, it := range r.items {
			s := subj.Registry[it.Index]
			u := &c12Unit{it: it, s: s, src: it.G.Source()}
			if s.Lexer != nil {
				m, err := lexnfa.New(it.G)
				if err != nil {
					r.t.Fatalf("INFRA: %v", err)
				}
				u.m = m
			}
			if s.Parser != nil {
				c, err := cfg.FromGrammar(it.G)
				if err != nil {
					r.t.Fatalf("INFRA: %v", err)
				}
				u.c, u.d = c, cfg.NewDeriver(c, true)
				if lr, err := cfg.BuildLR1(c); err == nil {
					u.lr = lr
					u.big = len(lr.States) >= 6
				}
			}
			us = append(us, u)
		}
		mb, mt := maxBytes(r), maxToks(r)
		check(r, func(rt *rapid.T) C12Case {
			u := us[rapid.IntRange(0, len(us)-1).Draw(rt, "grammar")]
			c := C12Case{Index: u.it.Index, G: u.it.G, Flags: u.it.Flags, Variants: u.it.Variants, FailAt: -1}
			if u.m != nil {
				c.Src = gen.LexInput(rt, u.m, mb)
			}
			if u.c != nil {
				in := gen.DrawParseInput(rt, u.c, u.d, mt, 3, 40)
				if u.lr != nil && rapid.IntRange(0, 2).Draw(rt, "aimAtEntry") == 0 {
					// every entry of the (possibly re-encoded) tables gets its turn
					if toks, ok := aimAtEntry(rt, u.lr, u.c, mt, false); ok {
						in.Toks = toks
					}
				}
				for _, t := range in.Toks {
					if t < 0 {
						c.Toks = append(c.Toks, "INVALID")
					} else {
						c.Toks = append(c.Toks, u.c.Terms[t])
					}
				}
				if rapid.IntRange(0, 4).Draw(rt, "injectFail") == 0 {
					c.FailAt = rapid.IntRange(0, 5).Draw(rt, "failAt")
				}
			}
			return c
		}, func(c C12Case) string {
			for _, u := range us {
				if u.it.Index == c.Index {
					return evalC12(r, u, c)
				}
			}
			return evalC12(r, us[0], c)
		})
	}
}

func typed(p subj.Parser, names []string) []subj.PTok {
	out := make([]subj.PTok, len(names))
	for i, n := range names {
		if n == "INVALID" {
			out[i] = subj.PTok{Type: 0, Lit: "?"}
		} else {
			lit := n
			if (i+len(names))%5 == 0 {
				// a long literal (debug traces like to abbreviate those)
				lit = n + "_" + strings.Repeat("0123456789", 4)
			}
			out[i] = subj.PTok{Type: p.Type(n), Lit: lit}
		}
	}
	return out
}

func evalC12(r *runner, u *c12Unit, c C12Case) string {
	var vs []string
	for v := range u.s.LexVariants {
		vs = append(vs, v)
	}
	for v := range u.s.ParseVariants {
		if _, ok := u.s.LexVariants[v]; !ok {
			vs = append(vs, v)
		}
	}
	sort.Strings(vs)
	hd := fmt.Sprintf("grammar:\n%s\n", u.src)
	var baseToks []subj.Tok
	n := nScans(c.Src)
	if u.s.Lexer != nil {
		baseToks = u.s.Lexer.Scan(c.Src, n)
	}
	var baseObs subj.ParseObs
	if u.s.Parser != nil {
		baseObs = u.s.Parser.NewSession().Parse(typed(u.s.Parser, c.Toks), c.FailAt, true)
	}
	invalidSeen := false
	for _, t := range baseToks {
		if t.Type == 0 {
			invalidSeen = true
		}
	}
	for _, v := range vs {
		r.col.Eval()
		if lx, ok := u.s.LexVariants[v]; ok && u.s.Lexer != nil {
			// same numbering
			bn, vn := subj.TokenNames(u.s.Lexer), subj.TokenNames(lx)
			if strings.Join(bn, "\x00") != strings.Join(vn, "\x00") {
				return hd + fmt.Sprintf("variant %s (%v) numbers the tokens %q, the base build %q", v, c.Variants[v], vn, bn)
			}
			got := lx.Scan(c.Src, n)
			for i := range baseToks {
				a, b := baseToks[i], got[i]
				if a.Type != b.Type || !bytes.Equal(a.Lit, b.Lit) || a.Off != b.Off || a.Line != b.Line || a.Col != b.Col {
					return hd + fmt.Sprintf("input %q: token %d is %s %q at %d:%d:%d without flags, %s %q at %d:%d:%d with %v",
						c.Src, i+1, tokName(lx, a), a.Lit, a.Off, a.Line, a.Col, tokName(lx, b), b.Lit, b.Off, b.Line, b.Col, c.Variants[v])
				}
			}
		}
		if ps, ok := u.s.ParseVariants[v]; ok && u.s.Parser != nil {
			bn, vn := subj.TokenNames(u.s.Parser), subj.TokenNames(ps)
			if strings.Join(bn, "\x00") != strings.Join(vn, "\x00") {
				return hd + fmt.Sprintf("variant %s (%v) numbers the tokens %q, the base build %q", v, c.Variants[v], vn, bn)
			}
			o := ps.NewSession().Parse(typed(ps, c.Toks), c.FailAt, true)
			if obsKey(o) != obsKey(baseObs) || o.ErrString != baseObs.ErrString || (o.Panic == "") != (baseObs.Panic == "") {
				return hd + fmt.Sprintf("tokens %v (fail_at %d): without flags\n  %s\n  %q\nwith %v\n  %s\n  %q", c.Toks, c.FailAt, obsText(baseObs), baseObs.ErrString, c.Variants[v], obsText(o), o.ErrString)
			}
		}
		r.col.Class("variant_" + v)
	}
	nt := false
	if u.s.Parser != nil && u.big && len(c.Toks) >= 2 {
		nt = true
		if !baseObs.ErrNil {
			r.col.Class("failing_parse_compared")
		}
	}
	if u.s.Lexer != nil && invalidSeen {
		nt = true
	}
	if nt {
		r.col.NonTrivial(ev.Hash(u.src, string(c.Src), strings.Join(c.Toks, " "), fmt.Sprint(c.FailAt)), func() any {
			return map[string]any{"grammar": u.src, "variants": c.Variants, "source": string(c.Src), "tokens": c.Toks, "fail_at": c.FailAt}
		})
	}
	return ""
}

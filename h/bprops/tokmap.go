package bprops

import (
	"fmt"
	"strconv"
	"strings"
	"unicode"

	"pgregory.net/rapid"
	"verif.local/h/batch"
	"verif.local/h/cfg"
	"verif.local/h/ev"
	"verif.local/h/gen"
	"verif.local/h/gr"
	"verif.local/h/lexnfa"
	"verif.local/h/subj"
)

// C10 — one token numbering shared by token, lexer and parser packages.

type C10Case struct {
	Index int         `json:"index"`
	G     *gr.Grammar `json:"g"`
	Flags []string    `json:"flags"`
	// Probe: a name that is no terminal; Lexemes: per terminal name a text the
	// reference lexer scans as exactly that token; Toks: a sentence.
	Probes  []string          `json:"probes"`
	Lexemes map[string][]byte `json:"lexemes,omitempty"`
	Toks    []string          `json:"toks,omitempty"`
}

type c10Unit struct {
	it          *batch.Item
	tm          subj.TokMap
	lx          subj.Lexer
	ps          subj.Parser
	m           *lexnfa.Model
	c           *cfg.CFG
	e           *cfg.Earley
	d           *cfg.Deriver
	terms       []string // the harness's terminal set
	src         string
	escNeeded   bool
	litIsLexeme bool
}

func harnessTerminals(g *gr.Grammar) []string {
	seen := map[string]bool{}
	var out []string
	add := func(s string) {
		if !seen[s] {
			seen[s] = true
			out = append(out, s)
		}
	}
	for _, s := range g.SyntaxTerminals() {
		add(s)
	}
	for _, n := range g.TokenNames() {
		add(n)
	}
	return out
}

func needsEscape(s string) bool {
	return strconv.Quote(s) != `"`+s+`"`
}

func c10Units(r *runner) []*c10Unit {
	var us []*c10Unit
	for _, it := range r.items {
		s := subj.Registry[it.Index]
		u := &c10Unit{it: it, src: it.G.Source(), terms: harnessTerminals(it.G)}
		switch {
		case s.Lexer != nil:
			u.tm, u.lx = s.Lexer, s.Lexer
		}
		if s.Parser != nil {
			u.ps = s.Parser
			if u.tm == nil {
				u.tm = s.Parser
			}
		}
		if u.tm == nil {
			r.t.Fatalf("INFRA: grammar %d has neither lexer nor parser", it.Index)
		}
		if u.lx != nil {
			m, err := lexnfa.New(it.G)
			if err != nil {
				r.t.Fatalf("INFRA: %v", err)
			}
			u.m = m
			for _, l := range it.G.StringLits() {
				cf := m.Init()
				for _, rn := range l {
					cf, _ = m.Step(cf, rn)
				}
				for _, a := range cf.Acc {
					if !m.Patterns[a].Literal && !m.Patterns[a].Ignored {
						u.litIsLexeme = true
					}
				}
			}
		}
		if len(it.G.Prods) > 0 {
			c, err := cfg.FromGrammar(it.G)
			if err != nil {
				r.t.Fatalf("INFRA: %v", err)
			}
			u.c, u.e, u.d = c, cfg.NewEarley(c), cfg.NewDeriver(c, true)
		}
		for _, t := range u.terms {
			if needsEscape(t) {
				u.escNeeded = true
			}
		}
		us = append(us, u)
	}
	return us
}

func init() {
	table["C10"] = func(r *runner) {
		us := c10Units(r)
		check(r, func(rt *rapid.T) C10Case {
			u := us[rapid.IntRange(0, len(us)-1).Draw(rt, "grammar")]
			c := C10Case{Index: u.it.Index, G: u.it.G, Flags: u.it.Flags}
			// probes: near-misses of terminals and nonterminal names
			base := rapid.SampledFrom(append(append([]string{}, u.terms...), "S", "A", "x")).Draw(rt, "probeBase")
			c.Probes = []string{
				base + "x", "x" + base, strings.ToUpper(base), strconv.Quote(base), `"` + base + `"`, base + " ", "", "S'", "unknown", "ε",
				strings.Map(func(r rune) rune {
					if unicode.IsUpper(r) {
						return unicode.ToLower(r)
					}
					return unicode.ToUpper(r)
				}, base),
			}
			for _, p := range u.it.G.Prods {
				c.Probes = append(c.Probes, p.Name)
			}
			if u.m != nil {
				c.Lexemes = map[string][]byte{}
				for pi, p := range u.m.Patterns {
					if p.Ignored {
						continue
					}
					c.Lexemes[p.Name] = gen.Lexeme(rt, u.m, pi, 5)
				}
			}
			if u.d != nil && u.d.CanDerive() {
				_, y := u.d.Derive(rt, rapid.IntRange(1, 5).Draw(rt, "height"))
				for _, t := range y {
					c.Toks = append(c.Toks, u.c.Terms[t])
				}
			}
			return c
		}, func(c C10Case) string {
			for _, u := range us {
				if u.it.Index == c.Index {
					return evalC10(r, u, c)
				}
			}
			return evalC10(r, us[0], c)
		})
	}
}

func evalC10(r *runner, u *c10Unit, c C10Case) string {
	r.col.Eval()
	names := subj.TokenNames(u.tm)
	hd := fmt.Sprintf("grammar:\n%s\nflags %v: ", u.src, c.Flags)
	if len(names) < 2 || names[0] != "INVALID" || names[1] != "␚" {
		return hd + fmt.Sprintf("token numbers 0 and 1 are %q, expected INVALID and ␚", names[:min(2, len(names))])
	}
	pos := map[string]int{}
	for i, n := range names {
		if j, dup := pos[n]; dup {
			return hd + fmt.Sprintf("terminal %q has two numbers, %d and %d", n, j, i)
		}
		pos[n] = i
		if got := u.tm.Type(n); got != i {
			return hd + fmt.Sprintf("Type(Id(%d)) = %d (Id(%d) = %q): the lookups are not mutually inverse", i, got, i, n)
		}
	}
	isTerm := map[string]bool{}
	for _, t := range u.terms {
		isTerm[t] = true
		i, ok := pos[t]
		if !ok {
			return hd + fmt.Sprintf("terminal %q of the grammar has no number (numbered: %q)", t, names)
		}
		if u.tm.Id(i) != t || u.tm.Type(t) != i {
			return hd + fmt.Sprintf("terminal %q: Type = %d, Id(%d) = %q", t, u.tm.Type(t), i, u.tm.Id(i))
		}
	}
	for _, n := range names[2:] {
		if !isTerm[n] && n != "empty" && n != "error" {
			return hd + fmt.Sprintf("number %d is given to %q, which is no terminal of the grammar", pos[n], n)
		}
	}
	for _, p := range c.Probes {
		if _, ok := pos[p]; ok {
			continue
		}
		if got := u.tm.Type(p); got != 0 {
			return hd + fmt.Sprintf("Type(%q) = %d for a name that is no terminal (expected INVALID = 0)", p, got)
		}
	}
	if u.tm.Id(len(names)) != "unknown" || u.tm.Id(len(names)+7) != "unknown" {
		return hd + fmt.Sprintf("Id(%d) = %q beyond the last terminal", len(names), u.tm.Id(len(names)))
	}
	// the lexer emits these numbers
	if u.lx != nil && u.m != nil {
		for name, lexeme := range c.Lexemes {
			if len(lexeme) == 0 {
				continue
			}
			want, _ := u.m.ScanAll(lexeme, 1)
			if want[0].Kind != lexnfa.KTok || want[0].Name != name || want[0].End != len(lexeme) {
				continue // this text does not scan as exactly that token (priority, ignore): no expectation
			}
			got := u.lx.Scan(lexeme, 1)
			if got[0].Type != u.tm.Type(name) {
				return hd + fmt.Sprintf("the lexer scans %q as token type %d (%s); the token package numbers %q as %d", lexeme, got[0].Type, tokName(u.lx, got[0]), name, u.tm.Type(name))
			}
			r.col.Class("lexer_type_checked")
		}
	}
	// the parser's tables are indexed by these numbers
	if u.ps != nil && len(c.Toks) > 0 {
		toks := make([]subj.PTok, len(c.Toks))
		ids := make([]int, len(c.Toks))
		for i, n := range c.Toks {
			toks[i] = subj.PTok{Type: u.tm.Type(n), Lit: n}
			ids[i] = u.c.Term(n)
		}
		if u.e.Accepts(ids) {
			o := u.ps.NewSession().Parse(toks, -1, false)
			conflictFree := !hasFlag(c.Flags, "-a")
			// (under -a a cyclic grammar may legitimately keep reducing for ever: only
			// conflict-free grammars are held to termination here)
			if o.Panic != "" || (o.Guard && conflictFree) {
				return hd + fmt.Sprintf("sentence %v typed through TokMap.Type: Parse panicked or looped: %s", c.Toks, firstLines(o.Panic, 4))
			}
			if !o.ErrNil && conflictFree {
				return hd + fmt.Sprintf("sentence %v with token types taken from TokMap.Type is rejected by the parser: its tables are not indexed by the token package's numbers (error token #%d, expected %q)", c.Toks, o.Err.ErrTok, o.Err.Expected)
			}
			r.col.Class("parser_sentence_checked")
		}
	}
	if u.escNeeded || u.litIsLexeme {
		r.col.NonTrivial(ev.Hash(u.src, strings.Join(c.Flags, " ")), func() any {
			return map[string]any{"grammar": u.src, "flags": c.Flags, "numbering": names}
		})
	}
	if u.escNeeded {
		r.col.Class("terminal_needs_escaping")
	}
	return ""
}

func hasFlag(fs []string, f string) bool {
	for _, x := range fs {
		if x == f {
			return true
		}
	}
	return false
}

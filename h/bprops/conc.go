package bprops

import (
	"bytes"
	"fmt"
	"os"
	"runtime"
	"strings"
	"sync"
	"time"

	"pgregory.net/rapid"
	"verif.local/h/batch"
	"verif.local/h/cfg"
	"verif.local/h/ev"
	"verif.local/h/gen"
	"verif.local/h/gr"
	"verif.local/h/lexnfa"
	"verif.local/h/subj"
)

// C17 — independent lexer/parser instances are safe to use concurrently. The
// batch binary is built with -race; the race detector is one oracle, equality
// of every goroutine's results with the sequential results the other.

type C17Job struct {
	Src    []byte   `json:"src"`
	Text   []byte   `json:"text,omitempty"` // a source text for lexer and parser together
	Toks   []string `json:"toks"`
	FailAt int      `json:"fail_at"`
}

type C17Case struct {
	Index      int                 `json:"index"`
	G          *gr.Grammar         `json:"g"`
	Flags      []string            `json:"flags"`
	Variants   map[string][]string `json:"variants"`
	Variant    string              `json:"variant"` // "" or "zip"
	Jobs       []C17Job            `json:"jobs"`
	Goroutines int                 `json:"goroutines"`
	Rounds     int                 `json:"rounds"`
}

type c17Unit struct {
	it  *batch.Item
	s   *subj.Subject
	m   *lexnfa.Model
	c   *cfg.CFG
	d   *cfg.Deriver
	src string
}

func init() {
	table["C17"] = func(r *runner) {
		runtime.GOMAXPROCS(16)
		if os.Getenv("VERIF_WATCHDOG") == "" {
			watchdog = 900 * time.Second
		}
		var us []*c17Unit
		for _, it := range r.items {
			s := subj.Registry[it.Index]
			if s.Lexer == nil || s.Parser == nil {
				continue
			}
			m, err := lexnfa.New(it.G)
			if err != nil {
				r.t.Fatalf("INFRA: %v", err)
			}
			c, err := cfg.FromGrammar(it.G)
			if err != nil {
				r.t.Fatalf("INFRA: %v", err)
			}
			us = append(us, &c17Unit{it: it, s: s, m: m, c: c, d: cfg.NewDeriver(c, true), src: it.G.Source()})
		}
		if len(us) == 0 {
			r.t.Fatalf("INFRA: no combined grammar in the batch")
		}
		rounds := 20
		if r.tier == "thorough" {
			rounds = 60
		}
		check(r, func(rt *rapid.T) C17Case {
			u := us[rapid.IntRange(0, len(us)-1).Draw(rt, "grammar")]
			c := C17Case{Index: u.it.Index, G: u.it.G, Flags: u.it.Flags, Variants: u.it.Variants, Rounds: rounds}
			if _, ok := u.s.ParseVariants["zip"]; ok && rapid.Bool().Draw(rt, "zip") {
				c.Variant = "zip"
			}
			n := rapid.IntRange(4, 16).Draw(rt, "jobs")
			haveDeep := false
			for i := 0; i < n; i++ {
				j := C17Job{Src: gen.LexInput(rt, u.m, 30), FailAt: -1}
				in := gen.DrawParseInput(rt, u.c, u.d, 12, 3, 40)
				if !haveDeep && rapid.IntRange(0, 9).Draw(rt, "deep") == 0 {
					in.Toks = gen.DeepInput(rt, u.c)
					haveDeep = true // one per case: long inputs are expensive under the race detector
				}
				for _, t := range in.Toks {
					if t < 0 {
						j.Toks = append(j.Toks, "INVALID")
					} else {
						j.Toks = append(j.Toks, u.c.Terms[t])
					}
				}
				j.Text = gen.SourceFor(rt, u.m, j.Toks)
				if rapid.IntRange(0, 5).Draw(rt, "injectFail") == 0 {
					j.FailAt = rapid.IntRange(0, 4).Draw(rt, "failAt")
				}
				c.Jobs = append(c.Jobs, j)
			}
			c.Goroutines = rapid.IntRange(2, 16).Draw(rt, "goroutines")
			return c
		}, func(c C17Case) string {
			for _, u := range us {
				if u.it.Index == c.Index {
					return evalC17(r, u, c)
				}
			}
			return evalC17(r, us[0], c)
		})
	}
}

type c17Res struct {
	toks   []subj.Tok
	key    string
	msg    string
	text   string
	tokmod int
	whole  subj.SourceObs
}

func sameToks(a, b []subj.Tok) bool {
	if len(a) != len(b) {
		return false
	}
	for i := range a {
		if a[i].Type != b[i].Type || !bytes.Equal(a[i].Lit, b[i].Lit) || a[i].Off != b[i].Off || a[i].Line != b[i].Line || a[i].Col != b[i].Col || a[i].Ctx != b[i].Ctx || a[i].Aux != b[i].Aux {
			return false
		}
	}
	return true
}

func evalC17(r *runner, u *c17Unit, c C17Case) string {
	lx, ps := u.s.Lexer, u.s.Parser
	if c.Variant != "" {
		if l, ok := u.s.LexVariants[c.Variant]; ok {
			lx = l
		}
		if p, ok := u.s.ParseVariants[c.Variant]; ok {
			ps = p
		}
	}
	do := func(sess subj.Session, j C17Job) c17Res {
		var res c17Res
		res.toks = lx.Scan(j.Src, nScans(j.Src))
		o := sess.Parse(typed(ps, j.Toks), j.FailAt, true)
		res.key, res.msg = obsKey(o), o.ErrString
		res.text = o.Result.Short(4)
		res.tokmod = o.TokenModified
		res.whole = sess.ParseSource(j.Text)
		res.key += " whole: " + res.whole.Key()
		return res
	}
	// the inputs are shared by the goroutines (and read-only for the generated
	// code): what they hold now is what they must hold at the end
	type saved struct{ src, text []byte }
	orig := make([]saved, len(c.Jobs))
	for i, j := range c.Jobs {
		orig[i] = saved{append([]byte{}, j.Src...), append([]byte{}, j.Text...)}
	}
	intact := func(when string) string {
		for i, j := range c.Jobs {
			if !bytes.Equal(j.Src, orig[i].src) {
				return fmt.Sprintf("grammar:\n%s\nvariant %q: %s, the input buffer of job %d, shared by the goroutines and owned by the caller, was written to: %q became %q", u.src, c.Variant, when, i, orig[i].src, j.Src)
			}
			if !bytes.Equal(j.Text, orig[i].text) {
				return fmt.Sprintf("grammar:\n%s\nvariant %q: %s, the source text of job %d, shared by the goroutines and owned by the caller, was written to: %q became %q", u.src, c.Variant, when, i, orig[i].text, j.Text)
			}
		}
		return ""
	}
	// The concurrent rounds run FIRST, on whatever state the process is in: a
	// lazily filled shared cache is written on first use, and a sequential
	// pass beforehand would warm it up and hide the unsynchronised write from
	// the race detector. The sequential reference results are computed after.
	got := make([][]c17Res, c.Rounds)
	for round := 0; round < c.Rounds; round++ {
		got[round] = make([]c17Res, len(c.Jobs)+c.Goroutines)
		start := make(chan struct{})
		var wg sync.WaitGroup
		for g := 0; g < c.Goroutines; g++ {
			wg.Add(1)
			go func(g int) {
				defer wg.Done()
				sess := ps.NewSession() // this goroutine's own parser object
				<-start
				for k := g; k < len(c.Jobs)+c.Goroutines; k += c.Goroutines {
					got[round][k] = do(sess, c.Jobs[k%len(c.Jobs)])
				}
			}(g)
		}
		close(start)
		wg.Wait()
		r.col.Eval()
	}
	if msg := intact("after the concurrent rounds"); msg != "" {
		return msg
	}
	want := make([]c17Res, len(c.Jobs))
	failing := 0
	for i, j := range c.Jobs {
		want[i] = do(ps.NewSession(), j)
		if want[i].tokmod >= 0 {
			return fmt.Sprintf("grammar:\n%s\nvariant %q, job %d (tokens %v): the literal of token #%d, an object owned by the scanner, was written to by Parse or by rendering its error", u.src, c.Variant, i, j.Toks, want[i].tokmod)
		}
		if strings.HasPrefix(want[i].key, "errnil=false") {
			failing++
		}
	}
	for round := range got {
		for k, res := range got[round] {
			i := k % len(c.Jobs)
			g := k % c.Goroutines
			if !sameToks(res.toks, want[i].toks) {
				return fmt.Sprintf("grammar:\n%s\nvariant %q, %d goroutines, round %d: goroutine %d, job %d (source %q): token stream differs from the sequential run", u.src, c.Variant, c.Goroutines, round, g, i, c.Jobs[i].Src)
			}
			if res.key != want[i].key || res.msg != want[i].msg {
				return fmt.Sprintf("grammar:\n%s\nvariant %q, %d goroutines, round %d: goroutine %d, job %d (tokens %v): concurrently\n  %s\n  %q\nalone\n  %s\n  %q", u.src, c.Variant, c.Goroutines, round, g, i, c.Jobs[i].Toks, res.text+" "+res.key, res.msg, want[i].text+" "+want[i].key, want[i].msg)
			}
		}
	}
	if msg := intact("after the sequential runs"); msg != "" {
		return msg
	}
	if failing > 0 && c.Goroutines >= 2 && len(c.Jobs) >= 2 {
		r.col.NonTrivial(ev.Hash(u.src, c.Variant, fmt.Sprint(c.Jobs), fmt.Sprint(c.Goroutines)), func() any {
			return map[string]any{"grammar": u.src, "variant": c.Variant, "goroutines": c.Goroutines, "jobs": len(c.Jobs), "failing_parses": failing, "rounds": c.Rounds, "first_job_tokens": c.Jobs[0].Toks}
		})
	}
	if c.Variant == "zip" {
		r.col.Class("variant_zip")
	} else {
		r.col.Class("variant_plain")
	}
	return ""
}

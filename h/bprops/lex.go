package bprops

import (
	"bytes"
	"fmt"
	"unicode/utf8"

	"pgregory.net/rapid"
	"verif.local/h/batch"
	"verif.local/h/ev"
	"verif.local/h/gen"
	"verif.local/h/gr"
	"verif.local/h/lexnfa"
	"verif.local/h/subj"
)

// LexCase is a replayable case of the lexer properties.
type LexCase struct {
	Index int         `json:"index"` // grammar index inside the batch
	G     *gr.Grammar `json:"g"`     // the grammar itself (replays rebuild a one-grammar batch)
	Flags []string    `json:"flags"`
	Src   []byte      `json:"src"`
	K     int         `json:"k,omitempty"` // C16: scans before Reset
}

type lexUnit struct {
	it  *batch.Item
	m   *lexnfa.Model
	lx  subj.Lexer
	src string
}

func lexUnits(r *runner) []*lexUnit {
	var us []*lexUnit
	for _, it := range r.items {
		m, err := lexnfa.New(it.G)
		if err != nil {
			r.t.Fatalf("INFRA: model for grammar %d: %v", it.Index, err)
		}
		s := subj.Registry[it.Index]
		if s.Lexer == nil {
			r.t.Fatalf("INFRA: grammar %d has no lexer", it.Index)
		}
		us = append(us, &lexUnit{it: it, m: m, lx: s.Lexer, src: it.G.Source()})
	}
	return us
}

func maxBytes(r *runner) int {
	if r.tier == "thorough" {
		return 120
	}
	return 40
}

func drawLexCase(rt *rapid.T, us []*lexUnit, max int) (LexCase, *lexUnit) {
	ui := rapid.IntRange(0, len(us)-1).Draw(rt, "grammar")
	u := us[ui]
	src := gen.LexInput(rt, u.m, max)
	return LexCase{Index: u.it.Index, G: u.it.G, Flags: u.it.Flags, Src: src}, u
}

func unitOf(us []*lexUnit, idx int) *lexUnit {
	for _, u := range us {
		if u.it.Index == idx {
			return u
		}
	}
	return us[0]
}

func nScans(src []byte) int { return utf8.RuneCount(src) + 3 }

func init() {
	table["C01"] = func(r *runner) {
		us := lexUnits(r)
		mb := maxBytes(r)
		check(r, func(rt *rapid.T) LexCase { c, _ := drawLexCase(rt, us, mb); return c },
			func(c LexCase) string { return evalC01(r, unitOf(us, c.Index), c) })
	}
	table["C08"] = func(r *runner) {
		us := lexUnits(r)
		mb := maxBytes(r)
		check(r, func(rt *rapid.T) LexCase { c, _ := drawLexCase(rt, us, mb); return c },
			func(c LexCase) string { return evalC08(r, unitOf(us, c.Index), c) })
	}
	table["C16L"] = func(r *runner) {
		us := lexUnits(r)
		mb := maxBytes(r)
		check(r, func(rt *rapid.T) LexCase {
			c, _ := drawLexCase(rt, us, mb)
			c.K = rapid.IntRange(0, nScans(c.Src)).Draw(rt, "k")
			return c
		}, func(c LexCase) string { return evalC16L(r, unitOf(us, c.Index), c) })
	}
}

func tokName(lx subj.Lexer, t subj.Tok) string {
	if t.Type == -99 {
		return "PANIC"
	}
	return lx.Id(t.Type)
}

// evalC01: token by token equality of (name, literal) with the reference scan.
func evalC01(r *runner, u *lexUnit, c LexCase) string {
	n := nScans(c.Src)
	got := u.lx.Scan(c.Src, n)
	want, _ := u.m.ScanAll(c.Src, n)
	r.col.Eval()
	if len(got) != len(want) {
		return fmt.Sprintf("lexer returned %d tokens for %d Scan calls", len(got), n)
	}
	var tr lexnfa.Traits
	for i := range want {
		w, g := want[i], got[i]
		gname := tokName(u.lx, g)
		wlit := c.Src[w.Off:w.End]
		if gname != w.Name || !bytes.Equal(g.Lit, wlit) {
			return fmt.Sprintf("grammar:\n%s\ninput %q: Scan call %d returned %s %q, the lexical rules define %s %q (reference position %d)",
				u.src, c.Src, i+1, gname, g.Lit, w.Name, wlit, w.Off)
		}
		t := w.Traits
		tr.MultiAccept = tr.MultiAccept || t.MultiAccept
		tr.LitShadow = tr.LitShadow || t.LitShadow
		tr.DotCompeted = tr.DotCompeted || t.DotCompeted
		tr.UsedDot = tr.UsedDot || t.UsedDot
		tr.IgnoredThenBad = tr.IgnoredThenBad || t.IgnoredThenBad
		tr.IllFormed = tr.IllFormed || t.IllFormed
		if w.Kind == lexnfa.KInvalid {
			r.col.Class("tok_invalid")
		}
	}
	nt := false
	mark := func(b bool, name string) {
		if b {
			nt = true
			r.col.Class("input_" + name)
		}
	}
	mark(tr.MultiAccept, "multi_accept")
	mark(tr.LitShadow, "literal_shadows_named")
	mark(tr.DotCompeted, "dot_competes_with_class")
	mark(tr.IgnoredThenBad, "ignored_then_dead_rune")
	mark(tr.IllFormed, "ill_formed_utf8")
	hasInvalid := false
	for _, w := range want {
		if w.Kind == lexnfa.KInvalid {
			hasInvalid = true
		}
	}
	mark(hasInvalid, "has_invalid")
	if tr.UsedDot {
		r.col.Class("input_used_dot")
	}
	if nt {
		r.col.NonTrivial(ev.Hash(u.src, string(c.Src)), func() any {
			var names []string
			for _, w := range want {
				names = append(names, fmt.Sprintf("%s %q", w.Name, c.Src[w.Off:w.End]))
				if w.Kind == lexnfa.KEOF {
					break
				}
			}
			return map[string]any{"grammar": u.src, "input": string(c.Src), "input_bytes": fmt.Sprintf("%x", c.Src), "tokens": names}
		})
	}
	return ""
}

// evalC08: positions are a pure function of (source, offset); literals are the
// bytes they cover; lexemes tile the input.
func evalC08(r *runner, u *lexUnit, c LexCase) string {
	n := nScans(c.Src)
	got := u.lx.Scan(c.Src, n)
	want, segs := u.m.ScanAll(c.Src, n)
	r.col.Eval()
	prevEnd := 0
	afterSkip := false
	sawAfter := false
	for i, g := range got {
		if g.Type == -99 {
			return fmt.Sprintf("grammar:\n%s\ninput %q: Scan call %d: %s", u.src, c.Src, i+1, g.Lit)
		}
		if g.Off < 0 || g.Off > len(c.Src) || g.Off+len(g.Lit) > len(c.Src) {
			return fmt.Sprintf("grammar:\n%s\ninput %q: token %d has offset %d and %d literal bytes, outside the input", u.src, c.Src, i+1, g.Off, len(g.Lit))
		}
		if !bytes.Equal(g.Lit, c.Src[g.Off:g.Off+len(g.Lit)]) {
			return fmt.Sprintf("grammar:\n%s\ninput %q: token %d literal %q is not the input bytes at its offset %d", u.src, c.Src, i+1, g.Lit, g.Off)
		}
		l, col := lexnfa.Pos(c.Src, g.Off)
		if g.Line != l || g.Col != col {
			return fmt.Sprintf("grammar:\n%s\ninput %q: token %d (%s %q) at offset %d reports line %d column %d, the source says line %d column %d",
				u.src, c.Src, i+1, tokName(u.lx, g), g.Lit, g.Off, g.Line, g.Col, l, col)
		}
		if g.Off < prevEnd {
			return fmt.Sprintf("grammar:\n%s\ninput %q: token %d starts at %d, before the end %d of its predecessor (overlap/reordering)", u.src, c.Src, i+1, g.Off, prevEnd)
		}
		prevEnd = g.Off + len(g.Lit)
	}
	// tiling against the reference segmentation (which tells where ignored text lies)
	gi := 0
	cover := 0
	for _, s := range segs {
		if s.Off != cover {
			return fmt.Sprintf("INFRA: reference segmentation has a gap at %d", cover)
		}
		cover = s.End
		if s.Kind == lexnfa.KIgnored {
			afterSkip = true
			continue
		}
		if gi >= len(got) {
			break
		}
		g := got[gi]
		gi++
		if g.Off != s.Off || g.Off+len(g.Lit) != s.End {
			return fmt.Sprintf("grammar:\n%s\ninput %q: token %d covers [%d,%d) but the lexeme there is [%d,%d) (%s): lexemes do not tile the input",
				u.src, c.Src, gi, g.Off, g.Off+len(g.Lit), s.Off, s.End, s.Name)
		}
		if afterSkip {
			sawAfter = true
		}
		if s.Kind == lexnfa.KInvalid {
			afterSkip = true
		}
	}
	if cover != len(c.Src) {
		return fmt.Sprintf("INFRA: reference segmentation covers %d of %d bytes", cover, len(c.Src))
	}
	// the EOF tokens
	for ; gi < len(got); gi++ {
		g := got[gi]
		if g.Off != len(c.Src) || len(g.Lit) != 0 {
			return fmt.Sprintf("grammar:\n%s\ninput %q: token %d after the end of input has offset %d literal %q", u.src, c.Src, gi+1, g.Off, g.Lit)
		}
		if afterSkip {
			sawAfter = true
		}
	}
	_ = want
	rich := bytes.ContainsAny(c.Src, "\n\t") || !isASCII(c.Src)
	if rich {
		r.col.Class("input_layout_rich")
	}
	if sawAfter {
		r.col.Class("token_after_invalid_or_ignored")
	}
	if rich && sawAfter {
		r.col.NonTrivial(ev.Hash(u.src, string(c.Src)), func() any {
			var ps []string
			for _, g := range got {
				ps = append(ps, fmt.Sprintf("%s@%d:%d:%d", tokName(u.lx, g), g.Off, g.Line, g.Col))
				if g.Type == 1 {
					break
				}
			}
			return map[string]any{"grammar": u.src, "input": string(c.Src), "input_bytes": fmt.Sprintf("%x", c.Src), "positions": ps}
		})
	}
	return ""
}

func isASCII(b []byte) bool {
	for _, c := range b {
		if c >= 0x80 {
			return false
		}
	}
	return true
}

// evalC16L: a lexer after Reset behaves like a fresh lexer.
func evalC16L(r *runner, u *lexUnit, c LexCase) string {
	n := nScans(c.Src)
	fresh := u.lx.Scan(c.Src, n)
	before, after := u.lx.ScanReset(c.Src, c.K, n)
	r.col.Eval()
	for i := range fresh {
		a, b := fresh[i], after[i]
		if a.Type != b.Type || !bytes.Equal(a.Lit, b.Lit) || a.Off != b.Off || a.Line != b.Line || a.Col != b.Col {
			return fmt.Sprintf("grammar:\n%s\ninput %q: after %d Scan calls and Reset, token %d is %s %q at %d:%d:%d; a fresh lexer returns %s %q at %d:%d:%d",
				u.src, c.Src, c.K, i+1, tokName(u.lx, b), b.Lit, b.Off, b.Line, b.Col, tokName(u.lx, a), a.Lit, a.Off, a.Line, a.Col)
		}
		if a.Ctx != b.Ctx {
			return fmt.Sprintf("grammar:\n%s\ninput %q: after %d Scan calls and Reset, token %d carries the lexer's Context: %v; from a fresh lexer with the same Context: %v",
				u.src, c.Src, c.K, i+1, b.Ctx, a.Ctx)
		}
	}
	nl, inv := false, false
	consumed := 0
	for _, t := range before {
		if t.Type == 0 {
			inv = true
		}
		consumed = t.Off + len(t.Lit)
	}
	if consumed > len(c.Src) {
		consumed = len(c.Src)
	}
	nl = bytes.ContainsAny(c.Src[:consumed], "\n\t")
	if c.K >= 1 && (nl || inv) {
		r.col.NonTrivial(ev.Hash("L", u.src, string(c.Src), fmt.Sprint(c.K)), func() any {
			return map[string]any{"kind": "lexer-reset", "grammar": u.src, "input": string(c.Src), "scans_before_reset": c.K}
		})
	}
	return ""
}

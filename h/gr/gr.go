// Package gr holds the harness's own representation of a gocc grammar
// (lexical part + syntax part) and renders it as gocc source text.
// It shares no code with gocc.
package gr

import (
	"encoding/json"
	"fmt"
	"strings"
	"unicode/utf8"
)

// ---------------------------------------------------------------------------
// Lexical patterns

type PatKind int

const (
	PLit   PatKind = iota // one rune: Lo
	PRange                // Lo-Hi
	PDot                  // .
	PRef                  // regular definition reference: Ref
	POpt                  // [ Subs[0] ]
	PRep                  // { Subs[0] }
	PGrp                  // ( Subs[0] )
	PSeq                  // Subs[0] Subs[1] ...
	PAlt                  // Subs[0] | Subs[1] | ...
)

type Pat struct {
	Kind PatKind `json:"k"`
	Lo   rune    `json:"lo,omitempty"`
	Hi   rune    `json:"hi,omitempty"`
	Ref  string  `json:"ref,omitempty"`
	Subs []*Pat  `json:"s,omitempty"`
	// FLo, FHi choose the spelling of the character literals Lo and Hi among
	// CharForms (index modulo their number; 0 = canonical)
	FLo int `json:"flo,omitempty"`
	FHi int `json:"fhi,omitempty"`
}

func Lit(r rune) *Pat        { return &Pat{Kind: PLit, Lo: r} }
func Range(lo, hi rune) *Pat { return &Pat{Kind: PRange, Lo: lo, Hi: hi} }
func Dot() *Pat              { return &Pat{Kind: PDot} }
func Ref(n string) *Pat      { return &Pat{Kind: PRef, Ref: n} }
func Opt(p *Pat) *Pat        { return &Pat{Kind: POpt, Subs: []*Pat{p}} }
func Rep(p *Pat) *Pat        { return &Pat{Kind: PRep, Subs: []*Pat{p}} }
func Grp(p *Pat) *Pat        { return &Pat{Kind: PGrp, Subs: []*Pat{p}} }
func Seq(ps ...*Pat) *Pat {
	if len(ps) == 1 {
		return ps[0]
	}
	return &Pat{Kind: PSeq, Subs: ps}
}
func Alt(ps ...*Pat) *Pat {
	if len(ps) == 1 {
		return ps[0]
	}
	return &Pat{Kind: PAlt, Subs: ps}
}

// StrPat returns the pattern matching exactly the runes of s.
func StrPat(s string) *Pat {
	var ps []*Pat
	for _, r := range s {
		ps = append(ps, Lit(r))
	}
	return Seq(ps...)
}

type DefKind int

const (
	DTok DefKind = iota // token
	DIgn                // ignored token (!name)
	DReg                // regular definition (_name)
)

type LexDef struct {
	Name string  `json:"name"`
	Kind DefKind `json:"kind"`
	Pat  *Pat    `json:"pat"`
}

// ---------------------------------------------------------------------------
// Syntax part

type SymKind int

const (
	SNT  SymKind = iota // nonterminal (production id)
	STok                // named token
	SLit                // string literal; Name is the content between the quotes
)

type Sym struct {
	Kind SymKind `json:"k"`
	Name string  `json:"n"`
	// Quote selects the quoting style when rendered: 0 => "…", 1 => `…`.
	Quote int `json:"q,omitempty"`
}

// TermName is the name under which a terminal is known to the generated
// token package (a token id, or the raw content of a string literal).
func (s Sym) TermName() string { return s.Name }

type Alt_ struct {
	Empty  bool   `json:"empty,omitempty"` // body is the keyword empty
	Error  bool   `json:"error,omitempty"` // body starts with the symbol error
	Syms   []Sym  `json:"syms,omitempty"`  // without the leading error
	Action string `json:"act,omitempty"`   // text between << and >> ("" = none)
	// Spec is the structured form of Action when the harness generated it (the
	// reference evaluators work on Spec, gocc sees Action).
	Spec *ActSpec `json:"spec,omitempty"`
}

// ActSpec describes a generated action.
//
//	Style "pass": << $K, nil >>
//	Style "rec":  << h.N($Context, Tag, args…) >> where arg i is $Idx or $TIdx
type ActSpec struct {
	Style string   `json:"style"`
	Tag   string   `json:"tag,omitempty"`
	K     int      `json:"k,omitempty"`
	Args  []ActArg `json:"args,omitempty"`
}

type ActArg struct {
	Idx   int  `json:"i"`
	AsTok bool `json:"t,omitempty"`
}

// Render returns the action text for the spec.
func (a *ActSpec) Render() string {
	switch a.Style {
	case "pass":
		return fmt.Sprintf("$%d, nil", a.K)
	case "rec":
		s := fmt.Sprintf("h.N($Context, %q", a.Tag)
		for _, x := range a.Args {
			if x.AsTok {
				s += fmt.Sprintf(", $T%d", x.Idx)
			} else {
				s += fmt.Sprintf(", $%d", x.Idx)
			}
		}
		return s + ")"
	}
	return ""
}

// NumBody returns the number of body symbols as gocc counts them (the error
// symbol included, empty = 0).
func (a *Alt_) NumBody() int {
	if a.Empty {
		return 0
	}
	n := len(a.Syms)
	if a.Error {
		n++
	}
	return n
}

type Prod struct {
	Name string `json:"name"`
	Alts []Alt_ `json:"alts"`
}

type Grammar struct {
	Lex    []LexDef `json:"lex,omitempty"`
	Header string   `json:"header,omitempty"` // text between << >> of the file header
	Prods  []Prod   `json:"prods,omitempty"`
}

// ---------------------------------------------------------------------------
// Rendering as a list of front-end tokens

// CharLit renders rune r as a gocc character literal in canonical form.
func CharLit(r rune) string {
	switch r {
	case '\'':
		return `'\''`
	case '\\':
		return `'\\'`
	case '\n':
		return `'\n'`
	case '\r':
		return `'\r'`
	case '\t':
		return `'\t'`
	}
	if r >= 0x20 && r < 0x7f {
		return "'" + string(r) + "'"
	}
	if r < 0x10000 {
		return fmt.Sprintf(`'\u%04x'`, r)
	}
	return fmt.Sprintf(`'\U%08x'`, r)
}

// CharForms returns every spelling of rune r as a gocc character literal
// (hex digits lower case); the first is the canonical one.
func CharForms(r rune) []string {
	forms := []string{CharLit(r)}
	add := func(s string) {
		for _, f := range forms {
			if f == s {
				return
			}
		}
		forms = append(forms, s)
	}
	// raw
	if r != '\'' && r != '\\' && r != '\n' && r != 0 && utf8.ValidRune(r) && r != utf8.RuneError {
		add("'" + string(r) + "'")
	}
	if r < 256 {
		add(fmt.Sprintf(`'\x%02x'`, r))
		add(fmt.Sprintf(`'\%03o'`, r))
	}
	if r < 0x10000 {
		add(fmt.Sprintf(`'\u%04x'`, r))
	}
	add(fmt.Sprintf(`'\U%08x'`, r))
	switch r {
	case 7:
		add(`'\a'`)
	case 8:
		add(`'\b'`)
	case 12:
		add(`'\f'`)
	case 10:
		add(`'\n'`)
	case 13:
		add(`'\r'`)
	case 9:
		add(`'\t'`)
	case 11:
		add(`'\v'`)
	case '\\':
		add(`'\\'`)
	case '\'':
		add(`'\''`)
	}
	return forms
}

// CharLitForm is the k-th spelling (modulo their number) of rune r.
func CharLitForm(r rune, k int) string {
	if k <= 0 {
		return CharLit(r)
	}
	f := CharForms(r)
	return f[k%len(f)]
}

// Tokens renders the pattern as a list of gocc source tokens.
func (p *Pat) Tokens() []string {
	var out []string
	p.tokens(&out)
	return out
}

func (p *Pat) tokens(out *[]string) {
	switch p.Kind {
	case PLit:
		*out = append(*out, CharLitForm(p.Lo, p.FLo))
	case PRange:
		*out = append(*out, CharLitForm(p.Lo, p.FLo), "-", CharLitForm(p.Hi, p.FHi))
	case PDot:
		*out = append(*out, ".")
	case PRef:
		*out = append(*out, p.Ref)
	case POpt:
		*out = append(*out, "[")
		p.Subs[0].tokens(out)
		*out = append(*out, "]")
	case PRep:
		*out = append(*out, "{")
		p.Subs[0].tokens(out)
		*out = append(*out, "}")
	case PGrp:
		*out = append(*out, "(")
		p.Subs[0].tokens(out)
		*out = append(*out, ")")
	case PSeq:
		for _, s := range p.Subs {
			if s.Kind == PAlt {
				// an alternation inside a sequence needs a group
				*out = append(*out, "(")
				s.tokens(out)
				*out = append(*out, ")")
			} else {
				s.tokens(out)
			}
		}
	case PAlt:
		for i, s := range p.Subs {
			if i > 0 {
				*out = append(*out, "|")
			}
			if s.Kind == PAlt {
				*out = append(*out, "(")
				s.tokens(out)
				*out = append(*out, ")")
			} else {
				s.tokens(out)
			}
		}
	default:
		panic("bad pattern kind")
	}
}

func (p *Pat) String() string { return strings.Join(p.Tokens(), " ") }

func (s Sym) Token() string {
	if s.Kind == SLit {
		if s.Quote == 1 {
			return "`" + s.Name + "`"
		}
		return `"` + s.Name + `"`
	}
	return s.Name
}

// Tok is one front-end token of a rendered grammar together with what it is.
type Tok struct {
	Text string
	// Class: one of tokId regDefId ignoredTokId prodId char_lit string_lit
	// g_sdt_lit or the punctuation itself.
	Class string
	// Region: "lex" or "syn" (after the first production head / header).
	Region string
}

// TokenList renders the whole grammar as front-end tokens.
func (g *Grammar) TokenList() []Tok {
	var out []Tok
	add := func(region, class, text string) { out = append(out, Tok{Text: text, Class: class, Region: region}) }
	for _, d := range g.Lex {
		cls := "tokId"
		switch d.Kind {
		case DIgn:
			cls = "ignoredTokId"
		case DReg:
			cls = "regDefId"
		}
		add("lex", cls, d.Name)
		add("lex", ":", ":")
		for _, t := range d.Pat.Tokens() {
			add("lex", ClassOf(t), t)
		}
		add("lex", ";", ";")
	}
	if g.Header != "" {
		add("syn", "g_sdt_lit", "<< "+g.Header+" >>")
	}
	for _, p := range g.Prods {
		add("syn", "prodId", p.Name)
		add("syn", ":", ":")
		for i, a := range p.Alts {
			if i > 0 {
				add("syn", "|", "|")
			}
			if a.Empty {
				add("syn", "tokId", "empty")
			} else {
				if a.Error {
					add("syn", "tokId", "error")
				}
				for _, s := range a.Syms {
					switch s.Kind {
					case SNT:
						add("syn", "prodId", s.Name)
					case STok:
						add("syn", "tokId", s.Name)
					case SLit:
						add("syn", "string_lit", s.Token())
					}
				}
			}
			if a.Action != "" {
				add("syn", "g_sdt_lit", "<< "+a.Action+" >>")
			}
		}
		add("syn", ";", ";")
	}
	return out
}

// ClassOf classifies a rendered lexical-pattern token.
func ClassOf(t string) string {
	switch t {
	case ".", "-", "[", "]", "{", "}", "(", ")", "|", ":", ";":
		return t
	}
	if strings.HasPrefix(t, "'") {
		return "char_lit"
	}
	if strings.HasPrefix(t, "_") {
		return "regDefId"
	}
	if strings.HasPrefix(t, "!") {
		return "ignoredTokId"
	}
	if strings.HasPrefix(t, `"`) || strings.HasPrefix(t, "`") {
		return "string_lit"
	}
	return "tokId"
}

// JoinTokens lays a token list out one definition per line.
func JoinTokens(toks []Tok) string {
	var b strings.Builder
	for i, t := range toks {
		b.WriteString(t.Text)
		if t.Text == ";" || t.Class == "g_sdt_lit" && i+1 < len(toks) && toks[i+1].Class == "prodId" {
			b.WriteString("\n")
		} else if i+1 < len(toks) {
			b.WriteString(" ")
		}
	}
	return b.String()
}

// Source renders the grammar as gocc source text (canonical spelling).
func (g *Grammar) Source() string { return JoinTokens(g.TokenList()) }

// ---------------------------------------------------------------------------
// Derived information

// Terminals returns the terminal names of the syntax part in order of first
// use, followed by the token ids of the lexical part that were not used, sorted
// (this is the *documented* numbering order; it is compared, not assumed).
func (g *Grammar) SyntaxTerminals() []string {
	seen := map[string]bool{}
	var out []string
	for _, p := range g.Prods {
		for _, a := range p.Alts {
			if a.Empty {
				continue
			}
			for _, s := range a.Syms {
				if s.Kind != SNT && !seen[s.Name] {
					seen[s.Name] = true
					out = append(out, s.Name)
				}
			}
		}
	}
	return out
}

// StringLits returns the distinct string-literal contents of the syntax part
// in order of first use.
func (g *Grammar) StringLits() []string {
	seen := map[string]bool{}
	var out []string
	for _, p := range g.Prods {
		for _, a := range p.Alts {
			for _, s := range a.Syms {
				if s.Kind == SLit && !seen[s.Name] {
					seen[s.Name] = true
					out = append(out, s.Name)
				}
			}
		}
	}
	return out
}

func (g *Grammar) TokenNames() []string {
	var out []string
	for _, d := range g.Lex {
		if d.Kind == DTok {
			out = append(out, d.Name)
		}
	}
	return out
}

func (g *Grammar) RegDef(name string) *LexDef {
	for i := range g.Lex {
		if g.Lex[i].Kind == DReg && g.Lex[i].Name == name {
			return &g.Lex[i]
		}
	}
	return nil
}

// Walk calls f on every node of the pattern (pre-order).
func (p *Pat) Walk(f func(*Pat)) {
	f(p)
	for _, s := range p.Subs {
		s.Walk(f)
	}
}

// Clone makes a deep copy.
func (p *Pat) Clone() *Pat {
	q := *p
	q.Subs = nil
	for _, s := range p.Subs {
		q.Subs = append(q.Subs, s.Clone())
	}
	return &q
}

// JSON cannot carry strings that are not valid UTF-8 (they come back with
// U+FFFD in place of the offending bytes); a terminal name may be any bytes
// (a string literal of the grammar holding ill-formed UTF-8), so such names
// travel as raw bytes.
type symJSON struct {
	Kind  SymKind `json:"k"`
	Name  string  `json:"n"`
	Quote int     `json:"q,omitempty"`
	Raw   []byte  `json:"raw,omitempty"`
}

func (s Sym) MarshalJSON() ([]byte, error) {
	j := symJSON{Kind: s.Kind, Name: s.Name, Quote: s.Quote}
	if !utf8.ValidString(s.Name) {
		j.Name, j.Raw = "", []byte(s.Name)
	}
	return json.Marshal(j)
}

func (s *Sym) UnmarshalJSON(b []byte) error {
	var j symJSON
	if err := json.Unmarshal(b, &j); err != nil {
		return err
	}
	s.Kind, s.Name, s.Quote = j.Kind, j.Name, j.Quote
	if j.Raw != nil {
		s.Name = string(j.Raw)
	}
	return nil
}

package gr

import "encoding/json"

// Clone makes a deep copy of the grammar.
func (g *Grammar) Clone() *Grammar {
	b, _ := json.Marshal(g)
	var c Grammar
	json.Unmarshal(b, &c)
	return &c
}

func (g *Grammar) refsRegdef(name string) bool {
	found := false
	for _, d := range g.Lex {
		d.Pat.Walk(func(p *Pat) {
			if p.Kind == PRef && p.Ref == name {
				found = true
			}
		})
	}
	return found
}

func (g *Grammar) usesSym(kind SymKind, name string) bool {
	for _, p := range g.Prods {
		for _, a := range p.Alts {
			for _, s := range a.Syms {
				if s.Kind == kind && s.Name == name {
					return true
				}
			}
		}
	}
	return false
}

// patReductions returns structurally smaller variants of p.
func patReductions(p *Pat) []*Pat {
	var out []*Pat
	// replace the node by one of its children
	for _, s := range p.Subs {
		out = append(out, s.Clone())
	}
	// drop one element of a sequence / alternation
	if (p.Kind == PSeq || p.Kind == PAlt) && len(p.Subs) >= 2 {
		for i := range p.Subs {
			q := &Pat{Kind: p.Kind}
			for j, s := range p.Subs {
				if j != i {
					q.Subs = append(q.Subs, s.Clone())
				}
			}
			if len(q.Subs) == 1 {
				q = q.Subs[0]
			}
			out = append(out, q)
		}
	}
	// a range becomes its lower end
	if p.Kind == PRange && p.Lo != p.Hi {
		out = append(out, Lit(p.Lo))
	}
	// recurse: reduce one child in place
	for i, s := range p.Subs {
		for _, r := range patReductions(s) {
			q := p.Clone()
			q.Subs[i] = r
			out = append(out, q)
		}
	}
	return out
}

// Reductions returns structurally smaller grammars (one step each).
func (g *Grammar) Reductions() []*Grammar {
	var out []*Grammar
	// lexical part
	for i, d := range g.Lex {
		referenced := false
		switch d.Kind {
		case DReg:
			referenced = g.refsRegdef(d.Name)
		case DTok:
			referenced = g.usesSym(STok, d.Name)
		}
		if !referenced {
			c := g.Clone()
			c.Lex = append(c.Lex[:i:i], c.Lex[i+1:]...)
			out = append(out, c)
		}
		for _, r := range patReductions(d.Pat) {
			c := g.Clone()
			c.Lex[i].Pat = r
			out = append(out, c)
		}
		// inline a regdef reference: replace the definition's uses by its body
		if d.Kind == DReg {
			c := g.Clone()
			body := d.Pat
			changed := false
			for k := range c.Lex {
				if k == i {
					continue
				}
				c.Lex[k].Pat = inlineRef(c.Lex[k].Pat, d.Name, body, &changed)
			}
			if changed {
				c.Lex = append(c.Lex[:i:i], c.Lex[i+1:]...)
				out = append(out, c)
			}
		}
	}
	// syntax part
	for pi, p := range g.Prods {
		if pi > 0 && !g.usesSym(SNT, p.Name) {
			c := g.Clone()
			c.Prods = append(c.Prods[:pi:pi], c.Prods[pi+1:]...)
			out = append(out, c)
		}
		for ai, a := range p.Alts {
			if len(p.Alts) >= 2 {
				c := g.Clone()
				c.Prods[pi].Alts = append(c.Prods[pi].Alts[:ai:ai], c.Prods[pi].Alts[ai+1:]...)
				out = append(out, c)
			}
			if !a.Empty && len(a.Syms) >= 2 {
				for si := range a.Syms {
					c := g.Clone()
					ca := &c.Prods[pi].Alts[ai]
					ca.Syms = append(ca.Syms[:si:si], ca.Syms[si+1:]...)
					bodyIdx := si
					if a.Error {
						bodyIdx++
					}
					if ca.Spec != nil {
						sp := *ca.Spec
						sp.Args = nil
						for _, x := range ca.Spec.Args {
							switch {
							case x.Idx == bodyIdx:
							case x.Idx > bodyIdx:
								sp.Args = append(sp.Args, ActArg{Idx: x.Idx - 1, AsTok: x.AsTok})
							default:
								sp.Args = append(sp.Args, x)
							}
						}
						if sp.Style == "pass" {
							if sp.K == bodyIdx {
								sp.K = 0
							} else if sp.K > bodyIdx {
								sp.K--
							}
						}
						ca.Spec = &sp
						ca.Action = sp.Render()
					} else if ca.Action != "" {
						continue // hand-written action text: indices cannot be adjusted
					}
					out = append(out, c)
				}
			}
			// replace a nonterminal occurrence by nothing is covered above; make the
			// alternative's action simpler: drop arguments
			if a.Spec != nil && a.Spec.Style == "rec" && len(a.Spec.Args) > 0 {
				c := g.Clone()
				ca := &c.Prods[pi].Alts[ai]
				sp := *ca.Spec
				sp.Args = nil
				ca.Spec = &sp
				ca.Action = sp.Render()
				out = append(out, c)
			}
		}
	}
	return out
}

func inlineRef(p *Pat, name string, body *Pat, changed *bool) *Pat {
	if p.Kind == PRef && p.Ref == name {
		*changed = true
		return Grp(body.Clone())
	}
	q := *p
	q.Subs = nil
	for _, s := range p.Subs {
		q.Subs = append(q.Subs, inlineRef(s, name, body, changed))
	}
	return &q
}

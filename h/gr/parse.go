package gr

import (
	"fmt"
	"strconv"
	"strings"
	"unicode"
	"unicode/utf8"
)

// Parse reads gocc grammar text into the harness's representation. It is a
// convenience for hand-written regression cases (replay files carry the AST);
// it accepts the documented syntax only and is not used as an oracle.
func Parse(src string) (*Grammar, error) {
	p := &parser{src: src}
	p.next()
	g := &Grammar{}
	for p.tok.kind != "eof" {
		switch p.tok.kind {
		case "tokId", "regDefId", "ignoredTokId":
			if len(g.Prods) > 0 || g.Header != "" {
				return nil, p.errf("lexical definition after the syntax part")
			}
			name := p.tok.text
			kind := DTok
			if p.tok.kind == "regDefId" {
				kind = DReg
			} else if p.tok.kind == "ignoredTokId" {
				kind = DIgn
			}
			p.next()
			if err := p.expect(":"); err != nil {
				return nil, err
			}
			pat, err := p.pattern()
			if err != nil {
				return nil, err
			}
			if err := p.expect(";"); err != nil {
				return nil, err
			}
			g.Lex = append(g.Lex, LexDef{Name: name, Kind: kind, Pat: pat})
		case "sdt":
			if g.Header != "" || len(g.Prods) > 0 {
				return nil, p.errf("unexpected << >>")
			}
			g.Header = p.tok.text
			p.next()
		case "prodId":
			pr := Prod{Name: p.tok.text}
			p.next()
			if err := p.expect(":"); err != nil {
				return nil, err
			}
			for {
				a, err := p.alt()
				if err != nil {
					return nil, err
				}
				pr.Alts = append(pr.Alts, a)
				if p.tok.kind == "|" {
					p.next()
					continue
				}
				break
			}
			if err := p.expect(";"); err != nil {
				return nil, err
			}
			g.Prods = append(g.Prods, pr)
		default:
			return nil, p.errf("unexpected %s %q", p.tok.kind, p.tok.text)
		}
	}
	return g, nil
}

// MustParse panics on error.
func MustParse(src string) *Grammar {
	g, err := Parse(src)
	if err != nil {
		panic(err)
	}
	return g
}

type ptok struct {
	kind string
	text string
	r    rune
	q    int
}

type parser struct {
	src string
	pos int
	tok ptok
	err error
}

func (p *parser) errf(f string, a ...any) error {
	return fmt.Errorf("grammar text offset %d: %s", p.pos, fmt.Sprintf(f, a...))
}

func (p *parser) expect(k string) error {
	if p.tok.kind != k {
		return p.errf("expected %s, found %s %q", k, p.tok.kind, p.tok.text)
	}
	p.next()
	return nil
}

func (p *parser) next() {
	// skip layout and comments
	for p.pos < len(p.src) {
		c := p.src[p.pos]
		if c == ' ' || c == '\t' || c == '\n' || c == '\r' {
			p.pos++
		} else if strings.HasPrefix(p.src[p.pos:], "//") {
			for p.pos < len(p.src) && p.src[p.pos] != '\n' {
				p.pos++
			}
		} else if strings.HasPrefix(p.src[p.pos:], "/*") {
			e := strings.Index(p.src[p.pos+2:], "*/")
			if e < 0 {
				p.pos = len(p.src)
			} else {
				p.pos += e + 4
			}
		} else {
			break
		}
	}
	if p.pos >= len(p.src) {
		p.tok = ptok{kind: "eof"}
		return
	}
	c, w := utf8.DecodeRuneInString(p.src[p.pos:])
	switch {
	case c == '!' || c == '_' || unicode.IsLetter(c):
		s := p.pos
		for p.pos < len(p.src) {
			r, w := utf8.DecodeRuneInString(p.src[p.pos:])
			if r == '!' || r == '_' || unicode.IsLetter(r) || unicode.IsDigit(r) {
				p.pos += w
			} else {
				break
			}
		}
		t := p.src[s:p.pos]
		k := "tokId"
		switch {
		case c == '!':
			k = "ignoredTokId"
		case c == '_':
			k = "regDefId"
		case unicode.IsUpper(c):
			k = "prodId"
		}
		p.tok = ptok{kind: k, text: t}
	case c == '\'':
		e := p.pos + 1
		for e < len(p.src) && p.src[e] != '\'' {
			if p.src[e] == '\\' {
				e++
			}
			e++
		}
		lit := p.src[p.pos : e+1]
		r, err := decodeChar(lit)
		if err != nil {
			p.err = err
		}
		p.pos = e + 1
		p.tok = ptok{kind: "char", text: lit, r: r}
	case c == '"':
		e := p.pos + 1
		for e < len(p.src) && p.src[e] != '"' {
			if p.src[e] == '\\' {
				e++
			}
			e++
		}
		p.tok = ptok{kind: "string", text: p.src[p.pos+1 : e], q: 0}
		p.pos = e + 1
	case c == '`':
		e := strings.IndexByte(p.src[p.pos+1:], '`')
		if e < 0 {
			e = len(p.src) - p.pos - 1
		}
		p.tok = ptok{kind: "string", text: p.src[p.pos+1 : p.pos+1+e], q: 1}
		p.pos += e + 2
	case strings.HasPrefix(p.src[p.pos:], "<<"):
		e := strings.Index(p.src[p.pos:], ">>")
		if e < 0 {
			e = len(p.src) - p.pos
		}
		p.tok = ptok{kind: "sdt", text: strings.TrimSpace(p.src[p.pos+2 : p.pos+e])}
		p.pos += e + 2
	default:
		p.tok = ptok{kind: string(c), text: string(c)}
		p.pos += w
	}
}

func decodeChar(lit string) (rune, error) {
	body := lit[1 : len(lit)-1]
	if !strings.HasPrefix(body, `\`) {
		r, _ := utf8.DecodeRuneInString(body)
		return r, nil
	}
	switch body[1] {
	case 'a':
		return 7, nil
	case 'b':
		return 8, nil
	case 'f':
		return 12, nil
	case 'n':
		return 10, nil
	case 'r':
		return 13, nil
	case 't':
		return 9, nil
	case 'v':
		return 11, nil
	case '\\':
		return '\\', nil
	case '\'':
		return '\'', nil
	case '"':
		return '"', nil
	case 'x', 'u', 'U':
		n, err := strconv.ParseUint(body[2:], 16, 32)
		return rune(n), err
	}
	n, err := strconv.ParseUint(body[1:], 8, 32)
	return rune(n), err
}

func (p *parser) pattern() (*Pat, error) {
	var alts []*Pat
	for {
		var seq []*Pat
		for {
			t, ok, err := p.term()
			if err != nil {
				return nil, err
			}
			if !ok {
				break
			}
			seq = append(seq, t)
		}
		if len(seq) == 0 {
			return nil, p.errf("empty lexical alternative")
		}
		alts = append(alts, Seq(seq...))
		if p.tok.kind == "|" {
			p.next()
			continue
		}
		break
	}
	return Alt(alts...), nil
}

func (p *parser) term() (*Pat, bool, error) {
	switch p.tok.kind {
	case ".":
		p.next()
		return Dot(), true, nil
	case "char":
		lo := p.tok.r
		p.next()
		if p.tok.kind == "-" {
			p.next()
			if p.tok.kind != "char" {
				return nil, false, p.errf("expected char after -")
			}
			hi := p.tok.r
			p.next()
			return Range(lo, hi), true, nil
		}
		return Lit(lo), true, nil
	case "regDefId":
		n := p.tok.text
		p.next()
		return Ref(n), true, nil
	case "[", "{", "(":
		open := p.tok.kind
		p.next()
		sub, err := p.pattern()
		if err != nil {
			return nil, false, err
		}
		cl := map[string]string{"[": "]", "{": "}", "(": ")"}[open]
		if err := p.expect(cl); err != nil {
			return nil, false, err
		}
		switch open {
		case "[":
			return Opt(sub), true, nil
		case "{":
			return Rep(sub), true, nil
		}
		return Grp(sub), true, nil
	}
	return nil, false, nil
}

func (p *parser) alt() (Alt_, error) {
	var a Alt_
	first := true
	for {
		switch p.tok.kind {
		case "prodId":
			a.Syms = append(a.Syms, Sym{Kind: SNT, Name: p.tok.text})
		case "tokId":
			if first && p.tok.text == "empty" {
				a.Empty = true
			} else if first && p.tok.text == "error" {
				a.Error = true
			} else {
				a.Syms = append(a.Syms, Sym{Kind: STok, Name: p.tok.text})
			}
		case "string":
			a.Syms = append(a.Syms, Sym{Kind: SLit, Name: p.tok.text, Quote: p.tok.q})
		case "sdt":
			a.Action = p.tok.text
			p.next()
			return a, nil
		default:
			if first {
				return a, p.errf("empty alternative")
			}
			return a, nil
		}
		first = false
		p.next()
	}
}

// Package ev collects what a run actually covered and writes it as JSON for the
// driver, which folds the shards into /verif/evidence/<ID>.json.
package ev

import (
	"crypto/sha256"
	"encoding/hex"
	"encoding/json"
	"os"
	"sort"
	"sync"
)

type Stats struct {
	Property    string         `json:"property"`
	Evaluations int            `json:"evaluations"`
	NonTrivial  []string       `json:"nontrivial_hashes"` // distinct fingerprints of non-trivial cases
	Classes     map[string]int `json:"classes"`
	Samples     []any          `json:"samples"`
	Excluded    map[string]int `json:"excluded_known"`
	Violations  []Violation    `json:"violations"`
	KnownSeen   map[string]int `json:"known_seen"`
	Exhaustive  bool           `json:"exhaustive,omitempty"`
	Notes       []string       `json:"notes,omitempty"`
	RapidChecks int            `json:"rapid_checks,omitempty"`
}

type Violation struct {
	Msg    string `json:"msg"`
	Replay string `json:"replay"` // path of the replay file written by the property
	Size   int    `json:"size"`
}

type Collector struct {
	mu       sync.Mutex
	s        Stats
	nt       map[string]bool
	maxSamp  int
	sampleEv int
}

func New(property string) *Collector {
	return &Collector{s: Stats{Property: property, Classes: map[string]int{}, Excluded: map[string]int{}, KnownSeen: map[string]int{}}, nt: map[string]bool{}, maxSamp: 8}
}

func (c *Collector) Eval() {
	c.mu.Lock()
	c.s.Evaluations++
	c.mu.Unlock()
}

func (c *Collector) EvalN(n int) {
	c.mu.Lock()
	c.s.Evaluations += n
	c.mu.Unlock()
}

func Hash(parts ...string) string {
	h := sha256.New()
	for _, p := range parts {
		h.Write([]byte(p))
		h.Write([]byte{0})
	}
	return hex.EncodeToString(h.Sum(nil))[:16]
}

// NonTrivial records a non-trivial case by fingerprint; sample is kept for the
// first few distinct ones.
func (c *Collector) NonTrivial(fp string, sample func() any) {
	c.mu.Lock()
	defer c.mu.Unlock()
	if c.nt[fp] {
		return
	}
	c.nt[fp] = true
	// keep samples spread out: the 1st, 2nd, 4th, 8th … distinct non-trivial case
	n := len(c.nt)
	if sample != nil && len(c.s.Samples) < c.maxSamp && n&(n-1) == 0 {
		c.s.Samples = append(c.s.Samples, sample())
	}
}

func (c *Collector) Class(name string) {
	c.mu.Lock()
	c.s.Classes[name]++
	c.mu.Unlock()
}

func (c *Collector) ClassN(name string, n int) {
	c.mu.Lock()
	c.s.Classes[name] += n
	c.mu.Unlock()
}

func (c *Collector) Exclude(class string) {
	c.mu.Lock()
	c.s.Excluded[class]++
	c.mu.Unlock()
}

func (c *Collector) Known(id string) {
	c.mu.Lock()
	c.s.KnownSeen[id]++
	c.mu.Unlock()
}

func (c *Collector) Note(s string) {
	c.mu.Lock()
	c.s.Notes = append(c.s.Notes, s)
	c.mu.Unlock()
}

func (c *Collector) SetExhaustive(b bool) { c.s.Exhaustive = b }

func (c *Collector) Violation(v Violation) {
	c.mu.Lock()
	c.s.Violations = append(c.s.Violations, v)
	c.mu.Unlock()
}

func (c *Collector) Write(path string) error {
	c.mu.Lock()
	defer c.mu.Unlock()
	c.s.NonTrivial = c.s.NonTrivial[:0]
	for k := range c.nt {
		c.s.NonTrivial = append(c.s.NonTrivial, k)
	}
	sort.Strings(c.s.NonTrivial)
	b, err := json.Marshal(&c.s)
	if err != nil {
		return err
	}
	return os.WriteFile(path, b, 0o644)
}

// Recorder keeps the smallest failing case seen as a replay file.
type Recorder struct {
	Dir      string
	Prop     string
	Engine   string
	Seed     string
	bestSize int
	BestPath string
	BestMsg  string
	mu       sync.Mutex
}

type ReplayFile struct {
	Property string          `json:"property"`
	Engine   string          `json:"engine"`
	Case     json.RawMessage `json:"case"`
	Msg      string          `json:"msg"`
	Seed     string          `json:"seed,omitempty"`
}

func (r *Recorder) Record(caseJSON []byte, msg string) {
	r.mu.Lock()
	defer r.mu.Unlock()
	if r.Dir == "" {
		return
	}
	if r.BestPath != "" && len(caseJSON) > r.bestSize {
		return
	}
	rf := ReplayFile{Property: r.Prop, Engine: r.Engine, Case: caseJSON, Msg: msg, Seed: r.Seed}
	b, _ := json.MarshalIndent(&rf, "", " ")
	path := r.Dir + "/" + r.Prop + "-" + Hash(string(caseJSON)) + ".json"
	if os.WriteFile(path, b, 0o644) == nil {
		if r.BestPath != "" && r.BestPath != path {
			os.Remove(r.BestPath)
		}
		r.bestSize, r.BestPath, r.BestMsg = len(caseJSON), path, msg
	}
}

// Flush reports the recorded violation to the collector.
func (r *Recorder) Flush(c *Collector) {
	r.mu.Lock()
	defer r.mu.Unlock()
	if r.BestPath != "" {
		c.Violation(Violation{Msg: r.BestMsg, Replay: r.BestPath, Size: r.bestSize})
	}
}

func LoadReplay(path string, into any) (*ReplayFile, error) {
	b, err := os.ReadFile(path)
	if err != nil {
		return nil, err
	}
	var rf ReplayFile
	if err := json.Unmarshal(b, &rf); err != nil {
		return nil, err
	}
	if err := json.Unmarshal(rf.Case, into); err != nil {
		return nil, err
	}
	return &rf, nil
}

package cfg

import (
	"sort"

	"verif.local/h/subj"
)

// SimResult is what the reference LR(1) machine (conflicts resolved by C05's
// rule, errors recovered by C07's rule) does on a token sequence.
type SimResult struct {
	Accepted   bool
	Reductions []int // gocc production numbers, in order
	Log        []subj.CallVal
	Result     subj.Val
	ErrTok     int    // index of the token the returned error carries
	ErrKind    string // "syntax" | "action"
	ErrState   int    // state whose row gives the expected tokens of the returned error
	ScanCalls  int
	// statistics
	UsedConflict   bool // a conflicted entry was consulted
	Recoveries     int
	ErrInErrTail   bool // an error occurred while an error alternative was being parsed
	RecStateBelow  bool // the state able to shift error was not the top of the stack
	GaveUpNoState  bool
	GaveUpEOF      bool
	SkippedTokens  int
	StepLimit      bool
	ErrAttrs       int
	MaxStack       int
	ConsultedPairs map[[2]int]bool
}

// Simulate runs the machine. toks are terminal ids (-1 for a token that is no
// terminal of the grammar); end-of-input follows. failAt >= 0 makes the
// failAt-th recorded action call fail.
func (l *LR1) Simulate(toks []int, failAt int) SimResult {
	c := l.C
	var r SimResult
	r.ErrTok = -1
	states := []int{0}
	attrs := []subj.Val{{Kind: "nil"}}
	inErr := []bool{false} // the state was pushed by shifting error or lies above such a state
	i := 0
	tok := func(k int) int {
		if k < len(toks) {
			return toks[k]
		}
		return EOF
	}
	steps := 0
	for {
		steps++
		if steps > 200*(len(toks)+4) {
			r.StepLimit = true
			return r
		}
		if len(states) > r.MaxStack {
			r.MaxStack = len(states)
		}
		top := states[len(states)-1]
		t := tok(i)
		var a Act
		ok := false
		if t >= 0 {
			var cf bool
			a, ok, cf = l.Resolved(top, t)
			if cf {
				r.UsedConflict = true
			}
		}
		if !ok {
			// syntax error at token i
			if inErr[len(inErr)-1] {
				r.ErrInErrTail = true
			}
			rs := -1
			for k := len(states) - 1; k >= 0; k-- {
				if _, can := l.CanShiftError(states[k]); can {
					rs = k
					break
				}
			}
			if rs < 0 {
				r.GaveUpNoState = r.Recoveries > 0 || c.HasTerm("error")
				r.ErrTok, r.ErrKind, r.ErrState = i, "syntax", top
				r.ScanCalls = i + 1
				return r
			}
			if rs != len(states)-1 {
				r.RecStateBelow = true
			}
			discarded := append([]subj.Val{}, attrs[rs+1:]...)
			states, attrs, inErr = states[:rs+1], attrs[:rs+1], inErr[:rs+1]
			es, _ := l.CanShiftError(states[rs])
			row := func(st int) []string {
				var names []string
				for tt := range c.Terms {
					if _, has, _ := l.Resolved(st, tt); has {
						names = append(names, c.Terms[tt])
					}
				}
				sort.Strings(names)
				return names
			}
			ev := subj.Val{Kind: "err", Err: &subj.ErrVal{ErrTok: i, Symbols: discarded, ExpectedAlt: [][]string{row(top), row(states[rs])}}}
			states, attrs, inErr = append(states, es), append(attrs, ev), append(inErr, true)
			r.ErrAttrs++
			errAt := i
			// skip input, starting with the offending token
			for {
				t = tok(i)
				if t >= 0 {
					if _, has, _ := l.Resolved(es, t); has {
						break
					}
				}
				if t == EOF {
					r.GaveUpEOF = true
					r.ErrTok, r.ErrKind, r.ErrState = errAt, "syntax", es
					r.ScanCalls = i + 1
					return r
				}
				i++
				r.SkippedTokens++
			}
			r.Recoveries++
			continue
		}
		switch a.Kind {
		case AAccept:
			r.Accepted = true
			r.Result = attrs[len(attrs)-1]
			r.ScanCalls = i + 1
			return r
		case AShift:
			states = append(states, a.Arg)
			attrs = append(attrs, subj.Val{Kind: "tok", Tok: i})
			inErr = append(inErr, inErr[len(inErr)-1])
			i++
		case AReduce:
			p := &c.Prods[a.Arg]
			n := len(p.Body)
			kids := append([]subj.Val{}, attrs[len(attrs)-n:]...)
			states, attrs, inErr = states[:len(states)-n], attrs[:len(attrs)-n], inErr[:len(inErr)-n]
			before := len(r.Log)
			v := applyAction(p, kids, &r.Log)
			r.Reductions = append(r.Reductions, p.Index)
			if failAt >= 0 && len(r.Log) > before && len(r.Log)-1 == failAt {
				r.ErrTok, r.ErrKind = i, "action"
				r.ScanCalls = i + 1
				return r
			}
			g, okg := l.States[states[len(states)-1]].Goto[c.SymOfNT(p.Head)]
			if !okg {
				// cannot happen in a well-formed automaton
				r.StepLimit = true
				return r
			}
			states = append(states, g)
			attrs = append(attrs, v)
			inErr = append(inErr, inErr[len(inErr)-1])
		}
	}
}

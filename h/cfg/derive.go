package cfg

import (
	"pgregory.net/rapid"
	"verif.local/h/subj"
)

// Tree is a derivation tree.
type Tree struct {
	Prod int // index into CFG.Prods (inner nodes)
	Kids []*Tree
	Leaf bool
	Term int // terminal id (leaves)
	Pos  int // position of the leaf in the yield
}

// MinHeights returns, per nonterminal, the minimal height of a derivation tree
// (-1: unproductive), and per production the minimal height using it.
func (c *CFG) MinHeights() (nt []int, prod []int) { return c.minHeights(false) }

func (c *CFG) minHeights(skipErr bool) (nt []int, prod []int) {
	nt = make([]int, len(c.NTs))
	for i := range nt {
		nt[i] = -1
	}
	prod = make([]int, len(c.Prods))
	for i := range prod {
		prod[i] = -1
	}
	for changed := true; changed; {
		changed = false
		for pi, p := range c.Prods {
			if skipErr && p.IsErr {
				continue
			}
			h := 1
			ok := true
			for _, s := range p.Body {
				if c.IsTerm(s) {
					continue
				}
				k := nt[c.NTIndex(s)]
				if k < 0 {
					ok = false
					break
				}
				if k+1 > h {
					h = k + 1
				}
			}
			if !ok {
				continue
			}
			if prod[pi] < 0 || h < prod[pi] {
				prod[pi] = h
				changed = true
			}
			if nt[p.Head] < 0 || h < nt[p.Head] {
				nt[p.Head] = h
				changed = true
			}
		}
	}
	return
}

// Deriver draws sentences by random derivation.
type Deriver struct {
	c     *CFG
	ntH   []int
	prodH []int
	byHd  [][]int
	// SkipErr: never use alternatives that start with the error symbol.
	SkipErr bool
}

func NewDeriver(c *CFG, skipErr bool) *Deriver {
	d := &Deriver{c: c, SkipErr: skipErr, byHd: make([][]int, len(c.NTs))}
	d.ntH, d.prodH = c.minHeights(skipErr)
	for i, p := range c.Prods {
		if d.prodH[i] >= 0 {
			d.byHd[p.Head] = append(d.byHd[p.Head], i)
		}
	}
	return d
}

// CanDerive reports whether the language (seen by this deriver) is non-empty.
func (d *Deriver) CanDerive() bool { return len(d.byHd[0]) > 0 }

// Derive draws a derivation tree of height <= budget (or minimal height if the
// budget is too small) and returns it with its yield.
func (d *Deriver) Derive(t *rapid.T, budget int) (*Tree, []int) {
	var yield []int
	var rec func(ntI, budget int) *Tree
	rec = func(ntI, budget int) *Tree {
		var cands []int
		for _, pi := range d.byHd[ntI] {
			if d.prodH[pi] <= budget {
				cands = append(cands, pi)
			}
		}
		if len(cands) == 0 {
			// budget exhausted: take a production of minimal height
			best := -1
			for _, pi := range d.byHd[ntI] {
				if best < 0 || d.prodH[pi] < d.prodH[best] {
					best = pi
				}
			}
			cands = []int{best}
		}
		pi := cands[0]
		if len(cands) > 1 {
			pi = cands[rapid.IntRange(0, len(cands)-1).Draw(t, "alt")]
		}
		n := &Tree{Prod: pi}
		for _, s := range d.c.Prods[pi].Body {
			if d.c.IsTerm(s) {
				n.Kids = append(n.Kids, &Tree{Leaf: true, Term: s, Pos: len(yield)})
				yield = append(yield, s)
			} else {
				n.Kids = append(n.Kids, rec(d.c.NTIndex(s), budget-1))
			}
		}
		return n
	}
	root := rec(0, budget)
	return root, yield
}

// ---------------------------------------------------------------------------
// Reference evaluation of actions

// applyAction computes the attribute an alternative yields from the attributes
// of its body symbols, appending recorded calls to log.
func applyAction(p *Prod, kids []subj.Val, log *[]subj.CallVal) subj.Val {
	if p.Alt == nil {
		// augmented production: never reduced by the generated parser
		if len(kids) > 0 {
			return kids[0]
		}
		return subj.Val{Kind: "nil"}
	}
	sp := p.Alt.Spec
	if sp == nil {
		if len(kids) == 0 {
			return subj.Val{Kind: "nil"}
		}
		return kids[0]
	}
	switch sp.Style {
	case "pass":
		return kids[sp.K]
	case "rec":
		cv := subj.CallVal{Tag: sp.Tag}
		for _, a := range sp.Args {
			cv.Args = append(cv.Args, kids[a.Idx])
		}
		*log = append(*log, cv)
		return subj.Val{Kind: "node", Tag: sp.Tag, Args: cv.Args}
	}
	return subj.Val{Kind: "other", Other: "unknown action style"}
}

// Eval evaluates the actions over the tree in post-order (children left to
// right, then the node): the definition of C03.
func (c *CFG) Eval(tr *Tree) (subj.Val, []subj.CallVal) {
	var log []subj.CallVal
	var rec func(n *Tree) subj.Val
	rec = func(n *Tree) subj.Val {
		if n.Leaf {
			return subj.Val{Kind: "tok", Tok: n.Pos}
		}
		var kids []subj.Val
		for _, k := range n.Kids {
			kids = append(kids, rec(k))
		}
		return applyAction(&c.Prods[n.Prod], kids, &log)
	}
	// the root is the augmented production S' -> Start; its value is Start's
	v := rec(tr.Kids[0])
	return v, log
}

// CountReductions returns the number of inner nodes below the root.
func (tr *Tree) CountReductions() (n int, maxArgs int) {
	var rec func(t *Tree)
	rec = func(t *Tree) {
		if t.Leaf {
			return
		}
		n++
		if len(t.Kids) > maxArgs {
			maxArgs = len(t.Kids)
		}
		for _, k := range t.Kids {
			rec(k)
		}
	}
	for _, k := range tr.Kids {
		rec(k)
	}
	return
}

// MinYield returns the yield of a minimal-height derivation from nonterminal
// ntI (deterministic).
func (d *Deriver) MinYield(ntI int) ([]int, bool) {
	if d.ntH[ntI] < 0 || len(d.byHd[ntI]) == 0 {
		return nil, false
	}
	var out []int
	var rec func(ntI int, depth int) bool
	rec = func(ntI int, depth int) bool {
		if depth > 64 {
			return false
		}
		best := -1
		for _, pi := range d.byHd[ntI] {
			if best < 0 || d.prodH[pi] < d.prodH[best] {
				best = pi
			}
		}
		if best < 0 {
			return false
		}
		for _, s := range d.c.Prods[best].Body {
			if d.c.IsTerm(s) {
				out = append(out, s)
			} else if !rec(d.c.NTIndex(s), depth+1) {
				return false
			}
		}
		return true
	}
	if !rec(ntI, 0) {
		return nil, false
	}
	return out, true
}

package cfg_test

import (
	"fmt"
	"sort"
	"strings"
	"testing"

	"pgregory.net/rapid"
	"verif.local/h/cfg"
	"verif.local/h/gen"
)

// language enumerates the sentences of length <= L by a fixed point over sets
// of terminal strings per nonterminal (brute force, independent of Earley).
func language(c *cfg.CFG, L int) map[string]bool {
	sets := make([]map[string]bool, len(c.NTs))
	for i := range sets {
		sets[i] = map[string]bool{}
	}
	key := func(w []int) string {
		var b strings.Builder
		for _, t := range w {
			fmt.Fprintf(&b, "%d,", t)
		}
		return b.String()
	}
	_ = key
	for changed := true; changed; {
		changed = false
		for _, p := range c.Prods {
			cur := []string{""}
			for _, s := range p.Body {
				var nxt []string
				if c.IsTerm(s) {
					for _, x := range cur {
						if strings.Count(x, ",") < L {
							nxt = append(nxt, x+fmt.Sprintf("%d,", s))
						}
					}
				} else {
					for _, x := range cur {
						for y := range sets[c.NTIndex(s)] {
							if strings.Count(x, ",")+strings.Count(y, ",") <= L {
								nxt = append(nxt, x+y)
							}
						}
					}
				}
				cur = nxt
				if len(cur) == 0 {
					break
				}
			}
			for _, x := range cur {
				if !sets[p.Head][x] {
					sets[p.Head][x] = true
					changed = true
				}
			}
		}
	}
	return sets[0]
}

func allStrings(nTerms, L int) [][]int {
	out := [][]int{{}}
	cur := [][]int{{}}
	for l := 0; l < L; l++ {
		var nxt [][]int
		for _, w := range cur {
			for t := 1; t < nTerms; t++ {
				nxt = append(nxt, append(append([]int{}, w...), t))
			}
		}
		out = append(out, nxt...)
		cur = nxt
	}
	return out
}

func keyOf(w []int) string {
	var b strings.Builder
	for _, t := range w {
		fmt.Fprintf(&b, "%d,", t)
	}
	return b.String()
}

// Earley agrees with brute-force enumeration on every string up to length 4,
// and its viable-prefix / expected-set answers agree with the enumerated
// language up to length 7.
func TestEarleyAgainstEnumeration(t *testing.T) {
	rapid.Check(t, func(rt *rapid.T) {
		g := gen.SynGrammar(gen.SynOpts{MaxNT: 3, MaxTerms: 3}).Draw(rt, "g")
		c, err := cfg.FromGrammar(g)
		if err != nil {
			rt.Skip()
		}
		if len(c.Terms) > 4 {
			rt.Skip()
		}
		e := cfg.NewEarley(c)
		const L = 4
		lang := language(c, L+3)
		prefixes := map[string]bool{}
		for s := range lang {
			parts := strings.Split(strings.TrimSuffix(s, ","), ",")
			if s == "" {
				parts = nil
			}
			acc := ""
			prefixes[acc] = true
			for _, p := range parts {
				acc += p + ","
				prefixes[acc] = true
			}
		}
		for _, w := range allStrings(len(c.Terms), L) {
			k := keyOf(w)
			if e.Accepts(w) != lang[k] {
				rt.Fatalf("grammar:\n%s\nstring %v: Earley says %v, enumeration says %v", g.Source(), w, e.Accepts(w), lang[k])
			}
			// soundness of "viable": every enumerated prefix is viable for Earley
			if prefixes[k] && e.ViablePrefixLen(w) != len(w) {
				rt.Fatalf("grammar:\n%s\n%v is a prefix of an enumerated sentence but Earley's viable prefix is %d", g.Source(), w, e.ViablePrefixLen(w))
			}
			if exp, ok := e.Expected(w); ok {
				for a := range exp {
					if a == cfg.EOF {
						if !lang[k] {
							rt.Fatalf("grammar:\n%s\n%v: end of input expected but not a sentence", g.Source(), w)
						}
						continue
					}
				}
				for t := 1; t < len(c.Terms); t++ {
					if prefixes[k+fmt.Sprintf("%d,", t)] && !exp[t] {
						rt.Fatalf("grammar:\n%s\n%v: %d continues an enumerated sentence but is not in Earley's expected set", g.Source(), w, t)
					}
				}
			}
		}
	})
}

// On grammars without conflicts the reference LR(1) machine agrees with
// Earley: verdict, position of the error, expected set.
func TestLR1AgainstEarley(t *testing.T) {
	rapid.Check(t, func(rt *rapid.T) {
		g := gen.SynGrammar(gen.SynOpts{MaxNT: 4, MaxTerms: 4}).Draw(rt, "g")
		c, err := cfg.FromGrammar(g)
		if err != nil {
			rt.Skip()
		}
		lr, err := cfg.BuildLR1(c)
		if err != nil {
			rt.Skip()
		}
		if lr.Conflicts().States > 0 {
			rt.Skip()
		}
		e := cfg.NewEarley(c)
		d := cfg.NewDeriver(c, true)
		for k := 0; k < 20; k++ {
			in := gen.DrawParseInput(rt, c, d, 10, 2, 40)
			sim := lr.Simulate(in.Toks, -1)
			if sim.Accepted != e.Accepts(in.Toks) {
				rt.Fatalf("grammar:\n%s\ninput %v: LR(1) accepts %v, Earley %v", g.Source(), in.Toks, sim.Accepted, e.Accepts(in.Toks))
			}
			if !sim.Accepted && c.AllProductive() {
				if vp := e.ViablePrefixLen(in.Toks); vp != sim.ErrTok {
					rt.Fatalf("grammar:\n%s\ninput %v: LR(1) fails at %d, Earley's viable prefix is %d", g.Source(), in.Toks, sim.ErrTok, vp)
				}
				exp, _ := e.Expected(in.Toks[:sim.ErrTok])
				var a, b []int
				for x := range exp {
					a = append(a, x)
				}
				sort.Ints(a)
				b = lr.ExpectedAt(sim.ErrState)
				if fmt.Sprint(a) != fmt.Sprint(b) {
					rt.Fatalf("grammar:\n%s\ninput %v: expected sets differ: Earley %v, LR(1) row %v", g.Source(), in.Toks, a, b)
				}
			}
			if in.Tree != nil {
				v, log := c.Eval(in.Tree)
				if fmt.Sprint(log) != fmt.Sprint(sim.Log) || v.String() != sim.Result.String() {
					rt.Fatalf("grammar:\n%s\ninput %v: tree evaluation and LR(1) evaluation differ", g.Source(), in.Toks)
				}
			}
		}
	})
}

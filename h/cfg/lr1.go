package cfg

import (
	"fmt"
	"sort"
	"strings"
)

// Textbook canonical LR(1): items are (production, dot, lookahead) triples.

type lrItem struct {
	prod, dot, la int
}

type ActKind int

const (
	AShift ActKind = iota
	AReduce
	AAccept
)

type Act struct {
	Kind ActKind
	Arg  int // shift: target state; reduce: production index
}

func (a Act) String() string {
	switch a.Kind {
	case AShift:
		return fmt.Sprintf("shift(%d)", a.Arg)
	case AReduce:
		return fmt.Sprintf("reduce(%d)", a.Arg)
	}
	return "accept"
}

type LRState struct {
	Items []lrItem
	Goto  map[int]int // symbol -> state
	// Acts[t] = all actions possible on terminal t (before resolution), sorted:
	// accept, shifts, reduces by production index.
	Acts map[int][]Act
}

type LR1 struct {
	C      *CFG
	States []*LRState
	first  []map[int]bool
	nul    []bool
	byHd   [][]int
}

const MaxLRStates = 4000

func BuildLR1(c *CFG) (*LR1, error) {
	l := &LR1{C: c, first: c.First(), nul: c.Nullable(), byHd: make([][]int, len(c.NTs))}
	for i, p := range c.Prods {
		l.byHd[p.Head] = append(l.byHd[p.Head], i)
	}
	start := l.closure([]lrItem{{0, 0, EOF}})
	index := map[string]int{key(start): 0}
	l.States = append(l.States, &LRState{Items: start})
	for i := 0; i < len(l.States); i++ {
		st := l.States[i]
		st.Goto = map[int]int{}
		// group by next symbol
		next := map[int][]lrItem{}
		var syms []int
		for _, it := range st.Items {
			b := c.Prods[it.prod].Body
			if it.dot < len(b) {
				s := b[it.dot]
				if _, ok := next[s]; !ok {
					syms = append(syms, s)
				}
				next[s] = append(next[s], lrItem{it.prod, it.dot + 1, it.la})
			}
		}
		sort.Ints(syms)
		for _, s := range syms {
			cl := l.closure(next[s])
			k := key(cl)
			j, ok := index[k]
			if !ok {
				j = len(l.States)
				if j >= MaxLRStates {
					return nil, fmt.Errorf("too many LR(1) states")
				}
				index[k] = j
				l.States = append(l.States, &LRState{Items: cl})
			}
			st.Goto[s] = j
		}
	}
	for _, st := range l.States {
		st.Acts = map[int][]Act{}
		has := func(t int, a Act) bool {
			for _, x := range st.Acts[t] {
				if x == a {
					return true
				}
			}
			return false
		}
		for _, it := range st.Items {
			b := c.Prods[it.prod].Body
			if it.dot < len(b) {
				s := b[it.dot]
				if c.IsTerm(s) {
					a := Act{AShift, st.Goto[s]}
					if !has(s, a) {
						st.Acts[s] = append(st.Acts[s], a)
					}
				}
			} else if it.prod == 0 {
				a := Act{AAccept, 0}
				if !has(it.la, a) {
					st.Acts[it.la] = append(st.Acts[it.la], a)
				}
			} else {
				a := Act{AReduce, it.prod}
				if !has(it.la, a) {
					st.Acts[it.la] = append(st.Acts[it.la], a)
				}
			}
		}
		for t := range st.Acts {
			as := st.Acts[t]
			sort.Slice(as, func(i, j int) bool {
				ri, rj := rank(as[i]), rank(as[j])
				if ri != rj {
					return ri < rj
				}
				return as[i].Arg < as[j].Arg
			})
		}
	}
	return l, nil
}

func rank(a Act) int {
	switch a.Kind {
	case AAccept:
		return 0
	case AShift:
		return 1
	}
	return 2
}

func key(items []lrItem) string {
	var b strings.Builder
	for _, it := range items {
		fmt.Fprintf(&b, "%d.%d.%d ", it.prod, it.dot, it.la)
	}
	return b.String()
}

func (l *LR1) firstOfSeq(seq []int, la int) []int {
	out := map[int]bool{}
	for _, s := range seq {
		if l.C.IsTerm(s) {
			out[s] = true
			return sortedKeys(out)
		}
		for t := range l.first[l.C.NTIndex(s)] {
			out[t] = true
		}
		if !l.nul[l.C.NTIndex(s)] {
			return sortedKeys(out)
		}
	}
	out[la] = true
	return sortedKeys(out)
}

func (l *LR1) closure(kernel []lrItem) []lrItem {
	seen := map[lrItem]bool{}
	var items []lrItem
	add := func(it lrItem) {
		if !seen[it] {
			seen[it] = true
			items = append(items, it)
		}
	}
	for _, it := range kernel {
		add(it)
	}
	for i := 0; i < len(items); i++ {
		it := items[i]
		b := l.C.Prods[it.prod].Body
		if it.dot >= len(b) || l.C.IsTerm(b[it.dot]) {
			continue
		}
		for _, la := range l.firstOfSeq(b[it.dot+1:], it.la) {
			for _, pi := range l.byHd[l.C.NTIndex(b[it.dot])] {
				add(lrItem{pi, 0, la})
			}
		}
	}
	sort.Slice(items, func(i, j int) bool {
		a, b := items[i], items[j]
		if a.prod != b.prod {
			return a.prod < b.prod
		}
		if a.dot != b.dot {
			return a.dot < b.dot
		}
		return a.la < b.la
	})
	return items
}

// Conflicts summarises the automaton's conflicts.
type Conflicts struct {
	States       int  // number of states with at least one conflicted entry
	Entries      int  // number of conflicted (state, terminal) entries
	AcceptReduce bool // some entry has accept competing with another action
	SR, RR       int  // entries with shift/reduce resp. reduce/reduce competition
	ThreeWay     int  // entries with >= 3 competing actions
}

func (l *LR1) Conflicts() Conflicts {
	var c Conflicts
	for _, st := range l.States {
		any := false
		for _, as := range st.Acts {
			if len(as) > 1 {
				any = true
				c.Entries++
				if len(as) >= 3 {
					c.ThreeWay++
				}
				nsh, nred := 0, 0
				for _, a := range as {
					switch a.Kind {
					case AAccept:
						c.AcceptReduce = true
					case AShift:
						nsh++
					case AReduce:
						nred++
					}
				}
				if nsh > 0 && nred > 0 {
					c.SR++
				}
				if nred > 1 {
					c.RR++
				}
			}
		}
		if any {
			c.States++
		}
	}
	return c
}

// Resolved returns the action chosen by C05's rule for (state, terminal):
// shift if a shift competes, otherwise the reduction by the earliest
// production; ok=false when the entry is empty. conflicted says whether there
// was competition.
func (l *LR1) Resolved(state, t int) (a Act, ok bool, conflicted bool) {
	as := l.States[state].Acts[t]
	if len(as) == 0 {
		return Act{}, false, false
	}
	// sorted: accept, shifts, reduces ascending
	return as[0], true, len(as) > 1
}

// ExpectedAt returns the terminals with an action in the state.
func (l *LR1) ExpectedAt(state int) []int {
	var out []int
	for t, as := range l.States[state].Acts {
		if len(as) > 0 {
			out = append(out, t)
		}
	}
	sort.Ints(out)
	return out
}

// CanShiftError reports whether the state has a shift on the terminal named
// "error".
func (l *LR1) CanShiftError(state int) (int, bool) {
	if !l.C.HasTerm("error") {
		return 0, false
	}
	e := l.C.Term("error")
	for _, a := range l.States[state].Acts[e] {
		if a.Kind == AShift {
			return a.Arg, true
		}
	}
	return 0, false
}

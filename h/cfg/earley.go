package cfg

// Earley recogniser over the grammar restricted to productive nonterminals
// (productions mentioning an unproductive nonterminal can never take part in a
// derivation of a sentence, so dropping them changes no answer about sentences
// or their prefixes, and makes "viable prefix" exact).

type Earley struct {
	c     *CFG
	prods []int // indices of usable productions
	byHd  [][]int
	nul   []bool
}

type eItem struct {
	prod, dot, origin int
}

func NewEarley(c *CFG) *Earley {
	e := &Earley{c: c, byHd: make([][]int, len(c.NTs))}
	pr := c.Productive()
	for i, p := range c.Prods {
		ok := pr[p.Head]
		for _, s := range p.Body {
			if !c.IsTerm(s) && !pr[c.NTIndex(s)] {
				ok = false
			}
		}
		if ok {
			e.prods = append(e.prods, i)
			e.byHd[p.Head] = append(e.byHd[p.Head], i)
		}
	}
	// nullable over usable productions
	e.nul = make([]bool, len(c.NTs))
	for changed := true; changed; {
		changed = false
		for _, pi := range e.prods {
			p := c.Prods[pi]
			if e.nul[p.Head] {
				continue
			}
			ok := true
			for _, s := range p.Body {
				if c.IsTerm(s) || !e.nul[c.NTIndex(s)] {
					ok = false
					break
				}
			}
			if ok {
				e.nul[p.Head] = true
				changed = true
			}
		}
	}
	return e
}

type chart struct {
	sets []map[eItem]bool
	list [][]eItem
}

func (e *Earley) add(ch *chart, k int, it eItem) {
	if !ch.sets[k][it] {
		ch.sets[k][it] = true
		ch.list[k] = append(ch.list[k], it)
	}
}

// run processes w and returns the chart; sets beyond the first empty one are
// absent (len(chart.sets)-1 is the number of tokens consumed successfully, i.e.
// the length of the longest viable prefix).
func (e *Earley) run(w []int) *chart {
	c := e.c
	ch := &chart{}
	newSet := func() {
		ch.sets = append(ch.sets, map[eItem]bool{})
		ch.list = append(ch.list, nil)
	}
	newSet()
	if len(e.byHd[0]) == 0 {
		return &chart{} // start unproductive: empty language
	}
	for _, pi := range e.byHd[0] {
		e.add(ch, 0, eItem{pi, 0, 0})
	}
	for k := 0; ; k++ {
		// closure of set k
		for i := 0; i < len(ch.list[k]); i++ {
			it := ch.list[k][i]
			body := c.Prods[it.prod].Body
			if it.dot < len(body) {
				s := body[it.dot]
				if !c.IsTerm(s) {
					ni := c.NTIndex(s)
					for _, pi := range e.byHd[ni] {
						e.add(ch, k, eItem{pi, 0, k})
					}
					if e.nul[ni] {
						e.add(ch, k, eItem{it.prod, it.dot + 1, it.origin})
					}
				}
			} else {
				// completion
				hd := c.Prods[it.prod].Head
				for j := 0; j < len(ch.list[it.origin]); j++ {
					o := ch.list[it.origin][j]
					ob := c.Prods[o.prod].Body
					if o.dot < len(ob) && !c.IsTerm(ob[o.dot]) && c.NTIndex(ob[o.dot]) == hd {
						e.add(ch, k, eItem{o.prod, o.dot + 1, o.origin})
					}
				}
			}
		}
		if k >= len(w) {
			break
		}
		// scan
		t := w[k]
		var nxt []eItem
		for _, it := range ch.list[k] {
			body := c.Prods[it.prod].Body
			if it.dot < len(body) && body[it.dot] == t && t != EOF {
				nxt = append(nxt, eItem{it.prod, it.dot + 1, it.origin})
			}
		}
		if len(nxt) == 0 {
			break
		}
		newSet()
		for _, it := range nxt {
			e.add(ch, k+1, it)
		}
	}
	return ch
}

func (e *Earley) accepting(ch *chart, k int) bool {
	if k >= len(ch.sets) {
		return false
	}
	for _, it := range ch.list[k] {
		if e.c.Prods[it.prod].Head == 0 && it.origin == 0 && it.dot == len(e.c.Prods[it.prod].Body) {
			return true
		}
	}
	return false
}

// Accepts reports whether w (terminal ids, without end-of-input) is a sentence.
func (e *Earley) Accepts(w []int) bool {
	ch := e.run(w)
	return len(ch.sets) == len(w)+1 && e.accepting(ch, len(w))
}

// ViablePrefixLen returns the length of the longest prefix of w that is a
// prefix of some sentence (-1 if even the empty prefix is not, i.e. the
// language is empty).
func (e *Earley) ViablePrefixLen(w []int) int {
	ch := e.run(w)
	return len(ch.sets) - 1
}

// Expected returns the terminals a such that prefix·a is a prefix of a
// sentence; EOF (0) is included iff prefix is a sentence. ok is false when
// prefix itself is not viable.
func (e *Earley) Expected(prefix []int) (set map[int]bool, ok bool) {
	ch := e.run(prefix)
	if len(ch.sets) != len(prefix)+1 {
		return nil, false
	}
	k := len(prefix)
	set = map[int]bool{}
	for _, it := range ch.list[k] {
		body := e.c.Prods[it.prod].Body
		if it.dot < len(body) && e.c.IsTerm(body[it.dot]) {
			set[body[it.dot]] = true
		}
	}
	if e.accepting(ch, k) {
		set[EOF] = true
	}
	return set, true
}

// Package cfg holds the reference context-free machinery: a plain CFG
// representation, an Earley recogniser and a textbook canonical LR(1)
// construction. None of it shares code or data structures with gocc.
package cfg

import (
	"fmt"
	"sort"

	"verif.local/h/gr"
)

// Symbols are ints: 0..NT-1 are terminals (0 is always end-of-input "␚"),
// NT.. are nonterminals.
type CFG struct {
	Terms []string // Terms[0] == "␚"
	NTs   []string
	// Prods[0] is the augmented production S' -> Start. Prods[i] for i>=1 are the
	// alternatives in grammar order, which is also gocc's production numbering.
	Prods []Prod
	tIdx  map[string]int
	nIdx  map[string]int
}

type Prod struct {
	Head int   // index into NTs
	Body []int // symbols
	// IsErr: the alternative starts with the error symbol (Body[0] is then the
	// terminal "error").
	IsErr bool
	Tag   string // "p<i>"
	Index int    // gocc's production number (position in the unfiltered list)
	Alt   *gr.Alt_
}

const EOF = 0

func (c *CFG) NT() int               { return len(c.Terms) }
func (c *CFG) IsTerm(s int) bool     { return s < len(c.Terms) }
func (c *CFG) NTIndex(s int) int     { return s - len(c.Terms) }
func (c *CFG) SymOfNT(i int) int     { return i + len(c.Terms) }
func (c *CFG) Term(name string) int  { return c.tIdx[name] }
func (c *CFG) HasTerm(n string) bool { _, ok := c.tIdx[n]; return ok }
func (c *CFG) SymName(s int) string {
	if c.IsTerm(s) {
		return c.Terms[s]
	}
	return c.NTs[s-len(c.Terms)]
}

// FromGrammar converts the syntax part. Undefined nonterminals are an error.
func FromGrammar(g *gr.Grammar) (*CFG, error) {
	c := &CFG{Terms: []string{"␚"}, tIdx: map[string]int{"␚": 0}, nIdx: map[string]int{}}
	if len(g.Prods) == 0 {
		return nil, fmt.Errorf("no syntax part")
	}
	c.NTs = append(c.NTs, "S'")
	c.nIdx["S'"] = 0
	for _, p := range g.Prods {
		if _, ok := c.nIdx[p.Name]; !ok {
			c.nIdx[p.Name] = len(c.NTs)
			c.NTs = append(c.NTs, p.Name)
		}
	}
	term := func(n string) int {
		if i, ok := c.tIdx[n]; ok {
			return i
		}
		c.tIdx[n] = len(c.Terms)
		c.Terms = append(c.Terms, n)
		return len(c.Terms) - 1
	}
	// first pass: collect terminals so that symbol numbering is stable
	for _, p := range g.Prods {
		for _, a := range p.Alts {
			if a.Error {
				term("error")
			}
			for _, s := range a.Syms {
				if s.Kind != gr.SNT {
					term(s.Name)
				}
			}
		}
	}
	nt := len(c.Terms)
	c.Prods = append(c.Prods, Prod{Head: 0, Body: []int{nt + c.nIdx[g.Prods[0].Name]}, Tag: "p0"})
	for pi := range g.Prods {
		p := &g.Prods[pi]
		for ai := range p.Alts {
			a := &p.Alts[ai]
			pr := Prod{Head: c.nIdx[p.Name], IsErr: a.Error, Tag: fmt.Sprintf("p%d", len(c.Prods)), Index: len(c.Prods), Alt: a}
			if !a.Empty {
				if a.Error {
					pr.Body = append(pr.Body, c.tIdx["error"])
				}
				for _, s := range a.Syms {
					if s.Kind == gr.SNT {
						i, ok := c.nIdx[s.Name]
						if !ok {
							return nil, fmt.Errorf("undefined nonterminal %s", s.Name)
						}
						pr.Body = append(pr.Body, nt+i)
					} else {
						pr.Body = append(pr.Body, c.tIdx[s.Name])
					}
				}
			}
			c.Prods = append(c.Prods, pr)
		}
	}
	return c, nil
}

// WithoutErrorAlts returns a copy without the alternatives that start with the
// error symbol (production indices are NOT preserved; Tag is).
func (c *CFG) WithoutErrorAlts() *CFG {
	d := &CFG{Terms: c.Terms, NTs: c.NTs, tIdx: c.tIdx, nIdx: c.nIdx}
	for _, p := range c.Prods {
		if !p.IsErr {
			d.Prods = append(d.Prods, p)
		}
	}
	return d
}

// Productive returns, per nonterminal, whether it derives a terminal string.
func (c *CFG) Productive() []bool {
	prod := make([]bool, len(c.NTs))
	for changed := true; changed; {
		changed = false
		for _, p := range c.Prods {
			if prod[p.Head] {
				continue
			}
			ok := true
			for _, s := range p.Body {
				if !c.IsTerm(s) && !prod[c.NTIndex(s)] {
					ok = false
					break
				}
			}
			if ok {
				prod[p.Head] = true
				changed = true
			}
		}
	}
	return prod
}

// Reachable returns, per nonterminal, whether it is reachable from S'.
func (c *CFG) Reachable() []bool {
	r := make([]bool, len(c.NTs))
	r[0] = true
	for changed := true; changed; {
		changed = false
		for _, p := range c.Prods {
			if !r[p.Head] {
				continue
			}
			for _, s := range p.Body {
				if !c.IsTerm(s) && !r[c.NTIndex(s)] {
					r[c.NTIndex(s)] = true
					changed = true
				}
			}
		}
	}
	return r
}

func (c *CFG) AllProductive() bool {
	for _, b := range c.Productive() {
		if !b {
			return false
		}
	}
	return true
}

// Nullable per nonterminal.
func (c *CFG) Nullable() []bool {
	n := make([]bool, len(c.NTs))
	for changed := true; changed; {
		changed = false
		for _, p := range c.Prods {
			if n[p.Head] {
				continue
			}
			ok := true
			for _, s := range p.Body {
				if c.IsTerm(s) || !n[c.NTIndex(s)] {
					ok = false
					break
				}
			}
			if ok {
				n[p.Head] = true
				changed = true
			}
		}
	}
	return n
}

// First sets per nonterminal (sets of terminal ids, without epsilon).
func (c *CFG) First() []map[int]bool {
	nul := c.Nullable()
	f := make([]map[int]bool, len(c.NTs))
	for i := range f {
		f[i] = map[int]bool{}
	}
	for changed := true; changed; {
		changed = false
		for _, p := range c.Prods {
			for _, s := range p.Body {
				if c.IsTerm(s) {
					if !f[p.Head][s] {
						f[p.Head][s] = true
						changed = true
					}
					break
				}
				for t := range f[c.NTIndex(s)] {
					if !f[p.Head][t] {
						f[p.Head][t] = true
						changed = true
					}
				}
				if !nul[c.NTIndex(s)] {
					break
				}
			}
		}
	}
	return f
}

func (c *CFG) ProdString(i int) string {
	p := c.Prods[i]
	s := c.NTs[p.Head] + " :"
	if len(p.Body) == 0 {
		s += " empty"
	}
	for _, b := range p.Body {
		s += " " + c.SymName(b)
	}
	return s
}

func sortedKeys(m map[int]bool) []int {
	var k []int
	for x := range m {
		k = append(k, x)
	}
	sort.Ints(k)
	return k
}

package gen

import (
	"fmt"
	"strings"

	"pgregory.net/rapid"
	"verif.local/h/gr"
)

// SynOpts tunes the syntax grammar generator.
type SynOpts struct {
	MaxNT      int // 1..5
	MaxTerms   int // 1..6
	ErrorAlts  bool
	Actions    bool     // decorate alternatives with recording actions
	Stratum    int      // 0 = mixed, 1 = families, 2 = random, 3 = with junk NTs
	ActPkg     string   // import path of the action helper ("" = verif.local/h/act)
	AllRec     bool     // every alternative gets a recording action
	NoTokCast  bool     // never use $Tn
	LongBodies bool     // dedicated stratum with bodies >= 11 symbols
	Terms      []gr.Sym // use exactly these terminals (nil: draw names)
	NoEmpty    bool     // no alternative is the keyword empty
	NoSplit    bool     // every nonterminal is defined by one rule
	RRTwin     bool     // add a nonterminal with the same body as an existing alternative (reduce/reduce conflict), declared at a random place
	SplitMore  bool     // split definitions more often
	Large      bool     // several family trees under one start symbol: dozens of states and productions
	ErrIdiom   bool     // with ErrorAlts: always the statement-list idiom (default: one grammar in three)
	DupAlt     bool     // one grammar in three has an alternative written twice in one definition (the first copy wins)
	Force      []int    // families one family grammar in ForceEvery starts with (14 chain, 16 same body in two contexts, …)
	ForceEvery int
	Chains     bool // one grammar in three starts with the chain family (FIRST sets that settle slowly)
}

var ntNames = []string{"A", "B", "C", "D", "E", "F", "G", "H", "I", "J", "K", "L", "M", "N", "O", "P"}
var tokNames = []string{"ta", "tb", "tc", "td", "te", "tf", "tg", "th"}
var litNames = []string{"+", "*", "(", ")", ",", ";", "x", "if", "=", "é", "x=", "==", "xx", "ifx"}

type synB struct {
	t     *rapid.T
	terms []gr.Sym
	prods []gr.Prod
	nNT   int
	maxNT int
	force int // family the next call of family() must build (0: free choice)
}

func (b *synB) term() gr.Sym { return rapid.SampledFrom(b.terms).Draw(b.t, "term") }

func (b *synB) newNT() (string, int) {
	name := ntNames[b.nNT]
	b.nNT++
	b.prods = append(b.prods, gr.Prod{Name: name})
	return name, len(b.prods) - 1
}

func nt(n string) gr.Sym { return gr.Sym{Kind: gr.SNT, Name: n} }

// family builds one nonterminal from a known-good template; its sub-elements
// are either terminals or further family nonterminals.
func (b *synB) family(depth int) gr.Sym {
	if b.nNT > 0 && (b.nNT >= b.maxNT || depth <= 0 || rapid.IntRange(0, 3).Draw(b.t, "leafOrNT") == 0) {
		return b.term()
	}
	name, pi := b.newNT()
	elem := func() gr.Sym { return b.family(depth - 1) }
	var alts []gr.Alt_
	body := func(s ...gr.Sym) gr.Alt_ { return gr.Alt_{Syms: s} }
	fam := b.force
	b.force = 0
	if fam == 0 {
		fam = rapid.IntRange(0, 17).Draw(b.t, "family")
	}
	switch fam {
	case 17: // terminals p, q and pq (one name the concatenation of two others):
		// the tails "pq" and "p q" behind two nonterminals, under the same look-ahead
		if b.maxNT-b.nNT < 2 {
			alts = []gr.Alt_{body(b.term(), elem())}
			break
		}
		var tp, tq, tpq gr.Sym
		found := false
		for _, x := range b.terms {
			for _, y := range b.terms {
				for _, z := range b.terms {
					if !found && x.Kind == gr.SLit && y.Kind == gr.SLit && z.Kind == gr.SLit && x.Name+y.Name == z.Name {
						tp, tq, tpq, found = x, y, z, true
					}
				}
			}
		}
		if !found {
			trio := rapid.SampledFrom([][]string{{"x", "=", "x="}, {"=", "=", "=="}, {"x", "x", "xx"}, {"if", "x", "ifx"}}).Draw(b.t, "splitTrio")
			var got []gr.Sym
			for _, n := range trio {
				var have *gr.Sym
				for i := range b.terms {
					if b.terms[i].Kind == gr.SLit && b.terms[i].Name == n {
						have = &b.terms[i]
					}
				}
				if have == nil {
					b.terms = append(b.terms, gr.Sym{Kind: gr.SLit, Name: n})
					have = &b.terms[len(b.terms)-1]
				}
				got = append(got, *have)
			}
			tp, tq, tpq = got[0], got[1], got[2]
		}
		un, upi := b.newNT()
		vn, vpi := b.newNT()
		b.prods[upi].Alts = []gr.Alt_{body(b.term())}
		b.prods[vpi].Alts = []gr.Alt_{body(b.term())}
		if rapid.Bool().Draw(b.t, "splitFirst") {
			alts = []gr.Alt_{body(nt(vn), tp, tq), body(nt(un), tpq)}
		} else {
			alts = []gr.Alt_{body(nt(un), tpq), body(nt(vn), tp, tq)}
		}
	case 16: // several nonterminals with the same body in two contexts, the followers
		// of the second context being those of the first in another order: states
		// with equal cores and equal look-aheads that are distributed differently
		// (the grammars that are LR(1) but not LALR(1) are of this kind)
		m := rapid.IntRange(2, 3).Draw(b.t, "sameBodyNTs")
		if b.maxNT-b.nNT < m {
			alts = []gr.Alt_{body(b.term(), elem(), b.term())}
			break
		}
		c, k1, k2 := b.term(), b.term(), b.term()
		var nts []gr.Sym
		for i := 0; i < m; i++ {
			n, npi := b.newNT()
			if i == 2 && rapid.Bool().Draw(b.t, "thirdLonger") {
				b.prods[npi].Alts = []gr.Alt_{body(c, b.term())}
			} else {
				b.prods[npi].Alts = []gr.Alt_{body(c)}
			}
			nts = append(nts, nt(n))
		}
		var f1 []gr.Sym
		for i := 0; i < m; i++ {
			f1 = append(f1, b.term())
		}
		f2 := f1
		if rapid.Bool().Draw(b.t, "followersPermuted") {
			f2 = rapid.Permutation(f1).Draw(b.t, "followerOrder")
		} else {
			f2 = nil
			for i := 0; i < m; i++ {
				f2 = append(f2, b.term())
			}
		}
		for i := 0; i < m; i++ {
			alts = append(alts, body(k1, nts[i], f1[i]))
		}
		for i := 0; i < m; i++ {
			alts = append(alts, body(k2, nts[i], f2[i]))
		}
	case 15: // a nonterminal that is nullable only indirectly (no empty alternative of
		// its own: every symbol of one of its bodies is nullable), used behind a
		// nonterminal and in front of a terminal
		if b.maxNT-b.nNT < 3 {
			alts = []gr.Alt_{body(elem(), b.term())}
			break
		}
		hn, hpi := b.newNT()
		b.prods[hpi].Alts = []gr.Alt_{body(b.term())}
		if rapid.Bool().Draw(b.t, "headTwo") {
			b.prods[hpi].Alts = append(b.prods[hpi].Alts, body(b.term(), b.term()))
		}
		x := nt(hn)
		tn, tpi := b.newNT()
		opt := func() gr.Sym {
			on, opi := b.newNT()
			if rapid.Bool().Draw(b.t, "optEmptyFirst") {
				b.prods[opi].Alts = []gr.Alt_{{Empty: true}, body(b.term())}
			} else {
				b.prods[opi].Alts = []gr.Alt_{body(b.term()), {Empty: true}}
			}
			return nt(on)
		}
		o1 := opt()
		o2 := o1
		if b.nNT < b.maxNT && rapid.Bool().Draw(b.t, "secondOpt") {
			o2 = opt()
		}
		switch rapid.IntRange(0, 2).Draw(b.t, "indirectShape") {
		case 0:
			b.prods[tpi].Alts = []gr.Alt_{body(o1, o2)}
		case 1:
			b.prods[tpi].Alts = []gr.Alt_{body(o1)}
		default:
			b.prods[tpi].Alts = []gr.Alt_{body(b.term(), b.term()), body(o1, o2)}
		}
		alts = []gr.Alt_{body(x, nt(tn), b.term())}
	case 14: // a chain of nonterminals declared top-down, some levels of which also
		// start with a terminal directly: FIRST sets that take several rounds to
		// settle and grow by sets that are partly known already; the chain follows
		// a nonterminal, so that its FIRST set is needed as look-ahead
		var p gr.Sym
		// (the chain has a budget of its own: its automaton stays small)
		limit := b.nNT + 8
		if limit > len(ntNames) {
			limit = len(ntNames)
		}
		if limit < b.maxNT {
			limit = b.maxNT
		}
		if limit-b.nNT >= 3 {
			pn, ppi := b.newNT()
			b.prods[ppi].Alts = []gr.Alt_{body(b.term()), body(b.term(), b.term())}
			dedupeAlts(&b.prods[ppi])
			p = nt(pn)
		} else {
			p = elem()
		}
		n := rapid.IntRange(2, 5).Draw(b.t, "chainLen")
		leaves := []gr.Sym{b.term()}
		for k := rapid.IntRange(0, 2).Draw(b.t, "chainLeaves"); k > 0; k-- {
			leaves = append(leaves, b.term())
		}
		var top gr.Sym
		prev := -1
		for i := 0; i < n && b.nNT < limit; i++ {
			cn, cpi := b.newNT()
			if prev < 0 {
				top = nt(cn)
			} else {
				a := body(nt(cn))
				if rapid.Bool().Draw(b.t, "chainTail") {
					a.Syms = append(a.Syms, b.term())
				}
				b.prods[prev].Alts = append(b.prods[prev].Alts, a)
				if b.nNT < limit-1 && rapid.IntRange(0, 2).Draw(b.t, "chainSide") == 0 {
					// a second alternative that starts with a nonterminal too: a short
					// side branch whose terminal arrives rounds before the chain's
					zn, zpi := b.newNT()
					b.prods[zpi].Alts = []gr.Alt_{body(b.term())}
					z := body(nt(zn))
					if rapid.Bool().Draw(b.t, "chainSideFirst") {
						b.prods[prev].Alts = []gr.Alt_{z, a}
					} else {
						b.prods[prev].Alts = append(b.prods[prev].Alts, z)
					}
				} else if rapid.Bool().Draw(b.t, "chainDirect") {
					// the level also starts with a terminal directly: one of the
					// leaves (it then reaches this level twice, the second time in
					// company) or any other
					d1 := b.term()
					if rapid.Bool().Draw(b.t, "chainDirectLeaf") {
						d1 = rapid.SampledFrom(leaves).Draw(b.t, "chainDirectWhich")
					}
					d := body(d1, b.term())
					if rapid.Bool().Draw(b.t, "chainDirectFirst") {
						b.prods[prev].Alts = []gr.Alt_{d, a}
					} else {
						b.prods[prev].Alts = append(b.prods[prev].Alts, d)
					}
				}
			}
			prev = cpi
		}
		if prev < 0 {
			top = b.term()
		} else {
			for _, l := range leaves {
				b.prods[prev].Alts = append(b.prods[prev].Alts, body(l))
			}
			dedupeAlts(&b.prods[prev])
		}
		var syms []gr.Sym
		if rapid.Bool().Draw(b.t, "chainLedByTerm") {
			syms = append(syms, b.term())
		}
		syms = append(syms, p, top)
		if rapid.Bool().Draw(b.t, "chainThenTerm") {
			syms = append(syms, b.term())
		}
		alts = []gr.Alt_{body(syms...)}
	case 13: // a phrase, and next to it an inlined copy of its beginning that goes
		// on differently: states whose kernels contain one another
		x := elem()
		k1, k2, t1 := b.term(), b.term(), b.term()
		alts = []gr.Alt_{body(k1, x), body(k2, x)}
		if x.Kind == gr.SNT {
			for _, p := range b.prods {
				if p.Name == x.Name && len(p.Alts) > 0 && !p.Alts[0].Empty && len(p.Alts[0].Syms) >= 1 {
					pre := p.Alts[0].Syms
					if len(pre) > 1 {
						pre = pre[:len(pre)-1]
					}
					syms := append([]gr.Sym{k2}, pre...)
					syms = append(syms, t1)
					alts = append(alts, gr.Alt_{Syms: append([]gr.Sym{}, syms...)})
					break
				}
			}
		}
	case 10: // something followed by a possibly empty list: lookaheads of the first
		// part come from FIRST of a nullable, recursive nonterminal
		x := elem()
		if b.nNT < b.maxNT {
			ln, lpi := b.newNT()
			y := elem()
			if rapid.Bool().Draw(b.t, "listLeftRec") {
				b.prods[lpi].Alts = []gr.Alt_{{Empty: true}, body(nt(ln), y)}
			} else {
				b.prods[lpi].Alts = []gr.Alt_{body(y, nt(ln)), {Empty: true}}
			}
			if rapid.Bool().Draw(b.t, "listThenTerm") {
				alts = []gr.Alt_{body(x, nt(ln), b.term())}
			} else {
				alts = []gr.Alt_{body(x, nt(ln))}
			}
		} else {
			alts = []gr.Alt_{body(x, b.term())}
		}
	case 11: // optional prefix / infix
		x := elem()
		if b.nNT < b.maxNT {
			on, opi := b.newNT()
			b.prods[opi].Alts = []gr.Alt_{body(elem()), {Empty: true}}
			switch rapid.IntRange(0, 2).Draw(b.t, "optPos") {
			case 0:
				alts = []gr.Alt_{body(nt(on), x)}
			case 1:
				alts = []gr.Alt_{body(x, nt(on), b.term())}
			default:
				alts = []gr.Alt_{body(x, nt(on), nt(on), b.term())}
			}
		} else {
			alts = []gr.Alt_{body(x)}
		}
	case 12: // the same phrase in two contexts with different followers
		x := elem()
		t1, t2, k1, k2 := b.term(), b.term(), b.term(), b.term()
		alts = []gr.Alt_{body(k1, x, t1), body(k2, x, t2)}
		if rapid.Bool().Draw(b.t, "thirdCtx") {
			alts = append(alts, body(k1, k2, x))
		}
	case 0: // left-recursive list with separator
		x, sep := elem(), b.term()
		alts = []gr.Alt_{body(nt(name), sep, x), body(x)}
	case 1: // right-recursive list with separator
		x, sep := elem(), b.term()
		alts = []gr.Alt_{body(x, sep, nt(name)), body(x)}
	case 2: // left-recursive list, possibly empty
		x := elem()
		alts = []gr.Alt_{body(nt(name), x), {Empty: true}}
	case 3: // right-recursive list, possibly empty
		x := elem()
		alts = []gr.Alt_{body(x, nt(name)), {Empty: true}}
	case 4: // optional element
		x := elem()
		alts = []gr.Alt_{body(x), {Empty: true}}
	case 5: // brackets
		x, o, c := elem(), b.term(), b.term()
		alts = []gr.Alt_{body(o, nt(name), c), body(x)}
	case 6: // sequence
		x, y := elem(), elem()
		if rapid.Bool().Draw(b.t, "seqMid") {
			alts = []gr.Alt_{body(x, b.term(), y)}
		} else {
			alts = []gr.Alt_{body(x, y)}
		}
	case 7: // choice
		x, y := elem(), elem()
		alts = []gr.Alt_{body(x), body(b.term(), y)}
	case 8: // binary operators, one level
		x, op := elem(), b.term()
		alts = []gr.Alt_{body(nt(name), op, x), body(x)}
		if rapid.Bool().Draw(b.t, "op2") {
			alts = append(alts, body(nt(name), b.term(), x))
		}
	default: // statement-like: keyword-led alternatives
		k1, k2 := b.term(), b.term()
		x := elem()
		alts = []gr.Alt_{body(k1, x, b.term()), body(k2, b.term())}
	}
	b.prods[pi].Alts = alts
	return nt(name)
}

func (b *synB) random(n int) {
	base := b.nNT
	var names []string
	for i := 0; i < n && b.nNT < len(ntNames); i++ {
		nm, _ := b.newNT()
		names = append(names, nm)
	}
	for i := range names {
		pi := base + i
		nAlt := rapid.IntRange(1, 3).Draw(b.t, "nAlt")
		for a := 0; a < nAlt; a++ {
			nSym := rapid.IntRange(0, 4).Draw(b.t, "nSym")
			if nSym == 0 {
				b.prods[pi].Alts = append(b.prods[pi].Alts, gr.Alt_{Empty: true})
				continue
			}
			var syms []gr.Sym
			for s := 0; s < nSym; s++ {
				if rapid.IntRange(0, 2).Draw(b.t, "symKind") == 0 {
					syms = append(syms, nt(rapid.SampledFrom(names).Draw(b.t, "ntRef")))
				} else {
					syms = append(syms, b.term())
				}
			}
			b.prods[pi].Alts = append(b.prods[pi].Alts, gr.Alt_{Syms: syms})
		}
	}
}

func dedupeAlts(p *gr.Prod) {
	seen := map[string]bool{}
	var out []gr.Alt_
	for _, a := range p.Alts {
		k := fmt.Sprint(a.Empty, a.Error, a.Syms)
		if !seen[k] {
			seen[k] = true
			out = append(out, a)
		}
	}
	p.Alts = out
}

// SynGrammar generates the syntax part of a grammar (no lexical part).
func SynGrammar(o SynOpts) *rapid.Generator[*gr.Grammar] {
	return rapid.Custom(func(t *rapid.T) *gr.Grammar {
		if o.MaxNT == 0 {
			o.MaxNT = 5
		}
		if o.MaxTerms == 0 {
			o.MaxTerms = 6
		}
		b := &synB{t: t, maxNT: o.MaxNT}
		nT := rapid.IntRange(1, o.MaxTerms).Draw(t, "nTerms")
		if len(o.Terms) > 0 {
			b.terms = append(b.terms, o.Terms...)
			nT = 0
		}
		if nT >= 3 && rapid.IntRange(0, 5).Draw(t, "concatNames") == 0 {
			// terminal names one of which is the concatenation of two others
			trio := rapid.SampledFrom([][]string{{"x", "=", "x="}, {"=", "=", "=="}, {"x", "x", "xx"}, {"if", "x", "ifx"}}).Draw(t, "trio")
			seenT := map[string]bool{}
			for _, n := range trio {
				if !seenT[n] {
					seenT[n] = true
					b.terms = append(b.terms, gr.Sym{Kind: gr.SLit, Name: n})
				}
			}
			nT -= len(b.terms)
		}
		for i := 0; i < nT; i++ {
			if rapid.IntRange(0, 2).Draw(t, "termKind") == 0 {
				l := rapid.SampledFrom(litNames).Draw(t, "litName")
				dup := false
				for _, s := range b.terms {
					if s.Kind == gr.SLit && s.Name == l {
						dup = true
					}
				}
				if !dup {
					b.terms = append(b.terms, gr.Sym{Kind: gr.SLit, Name: l})
					continue
				}
			}
			b.terms = append(b.terms, gr.Sym{Kind: gr.STok, Name: tokNames[i]})
		}
		stratum := o.Stratum
		if stratum == 0 {
			stratum = rapid.SampledFrom([]int{1, 1, 1, 2, 3}).Draw(t, "stratum")
		}
		if o.Large {
			b.maxNT = len(ntNames)
			name, pi := b.newNT()
			_ = name
			n := rapid.IntRange(2, 4).Draw(t, "largeAlts")
			for k := 0; k < n; k++ {
				x := b.family(4)
				a := gr.Alt_{Syms: []gr.Sym{b.term(), x}}
				if rapid.Bool().Draw(t, "largeTail") {
					a.Syms = append(a.Syms, b.term())
				}
				b.prods[pi].Alts = append(b.prods[pi].Alts, a)
			}
			stratum = -1
		}
		switch stratum {
		case -1:
		case 1, 3:
			// the first production must be a nonterminal: force one
			if o.Chains && rapid.IntRange(0, 2).Draw(t, "chains") == 0 {
				b.force = 14
			} else if o.ForceEvery > 0 && len(o.Force) > 0 && rapid.IntRange(0, o.ForceEvery-1).Draw(t, "forceEvery") == 0 {
				b.force = rapid.SampledFrom(o.Force).Draw(t, "forcedFamily")
			}
			b.family(3)
		default:
			b.random(rapid.IntRange(1, o.MaxNT).Draw(t, "nNT"))
		}
		if stratum == 3 && b.nNT < len(ntNames)-1 {
			// add an unreachable and/or an unproductive nonterminal
			if rapid.Bool().Draw(t, "unreach") {
				nm, pi := b.newNT()
				_ = nm
				b.prods[pi].Alts = []gr.Alt_{{Syms: []gr.Sym{b.term()}}}
			}
			if rapid.Bool().Draw(t, "unprod") && b.nNT < len(ntNames) {
				nm, pi := b.newNT()
				b.prods[pi].Alts = []gr.Alt_{{Syms: []gr.Sym{b.term(), nt(nm)}}}
				// reference it from some existing production as an extra alternative
				tgt := rapid.IntRange(0, pi-1).Draw(t, "unprodUse")
				b.prods[tgt].Alts = append(b.prods[tgt].Alts, gr.Alt_{Syms: []gr.Sym{b.term(), nt(nm)}})
			}
		}
		if o.ErrorAlts && b.nNT+1 < len(ntNames) && (rapid.IntRange(0, 2).Draw(t, "errList") == 0 || o.ErrIdiom) {
			// the classical idiom: a (possibly empty) list of statements, one of
			// whose alternatives starts with error and ends in a synchronising token
			ln, lpi := b.newNT()
			sn, spi := b.newNT()
			sync := b.term()
			var stAlts []gr.Alt_
			stAlts = append(stAlts, gr.Alt_{Error: true, Syms: []gr.Sym{sync}})
			nOk := rapid.IntRange(1, 2).Draw(t, "stmtAlts")
			for k := 0; k < nOk; k++ {
				stAlts = append(stAlts, gr.Alt_{Syms: []gr.Sym{b.term(), sync}})
			}
			if b.nNT < len(ntNames) && rapid.Bool().Draw(t, "stmtOptPrefix") {
				// a statement that starts with an optional part: when the error comes
				// right behind it, the value of the empty alternative (nil unless it
				// has an action) is among the attributes the recovery discards
				on, opi := b.newNT()
				b.prods[opi].Alts = []gr.Alt_{{Empty: true}, {Syms: []gr.Sym{b.term()}}}
				if rapid.Bool().Draw(t, "stmtOptOrder") {
					b.prods[opi].Alts[0], b.prods[opi].Alts[1] = b.prods[opi].Alts[1], b.prods[opi].Alts[0]
				}
				last := &stAlts[len(stAlts)-1]
				last.Syms = append([]gr.Sym{nt(on)}, last.Syms...)
			}
			b.prods[spi].Alts = rapid.Permutation(stAlts).Draw(t, "stmtOrder")
			switch rapid.IntRange(0, 3).Draw(t, "listShape") {
			case 0:
				b.prods[lpi].Alts = []gr.Alt_{{Syms: []gr.Sym{nt(ln), nt(sn)}}, {Empty: true}}
			case 1:
				b.prods[lpi].Alts = []gr.Alt_{{Syms: []gr.Sym{nt(sn), nt(ln)}}, {Empty: true}}
			case 2:
				b.prods[lpi].Alts = []gr.Alt_{{Syms: []gr.Sym{nt(ln), nt(sn)}}, {Syms: []gr.Sym{nt(sn)}}}
			default:
				b.prods[lpi].Alts = []gr.Alt_{{Empty: true}, {Syms: []gr.Sym{nt(ln), nt(sn)}}}
			}
			// the list becomes the start symbol, or is hung below the old start
			if rapid.Bool().Draw(t, "listIsStart") {
				np := []gr.Prod{b.prods[lpi], b.prods[spi]}
				np = append(np, b.prods[spi+1:]...) // the optional prefix, if any
				nIdiom := len(np)
				np = append(np, b.prods[:lpi]...)
				b.prods = np
				if rapid.Bool().Draw(t, "useOldStart") && len(b.prods) > nIdiom {
					b.prods[1].Alts = append(b.prods[1].Alts, gr.Alt_{Syms: []gr.Sym{nt(b.prods[nIdiom].Name), sync}})
				}
			} else {
				b.prods[0].Alts = append(b.prods[0].Alts, gr.Alt_{Syms: []gr.Sym{b.term(), nt(ln)}})
			}
		} else if o.ErrorAlts {
			n := rapid.IntRange(1, 2).Draw(t, "nErr")
			for i := 0; i < n; i++ {
				pi := rapid.IntRange(0, len(b.prods)-1).Draw(t, "errProd")
				var syms []gr.Sym
				switch rapid.IntRange(0, 3).Draw(t, "errShape") {
				case 0:
				case 1:
					syms = []gr.Sym{b.term()}
				case 2:
					syms = []gr.Sym{nt(b.prods[rapid.IntRange(0, len(b.prods)-1).Draw(t, "errNT")].Name), b.term()}
				default:
					syms = []gr.Sym{b.term(), b.term()}
				}
				b.prods[pi].Alts = append(b.prods[pi].Alts, gr.Alt_{Error: true, Syms: syms})
			}
		}
		if o.LongBodies {
			pi := rapid.IntRange(0, len(b.prods)-1).Draw(t, "longProd")
			n := rapid.IntRange(11, 13).Draw(t, "longN")
			var syms []gr.Sym
			for i := 0; i < n; i++ {
				syms = append(syms, b.term())
			}
			b.prods[pi].Alts = append(b.prods[pi].Alts, gr.Alt_{Syms: syms})
		}
		if o.NoEmpty {
			for i := range b.prods {
				for j := range b.prods[i].Alts {
					if b.prods[i].Alts[j].Empty {
						b.prods[i].Alts[j] = gr.Alt_{Syms: []gr.Sym{b.term()}}
					}
				}
			}
		}
		for i := range b.prods {
			dedupeAlts(&b.prods[i])
		}
		if o.DupAlt && rapid.IntRange(0, 2).Draw(t, "dupAlt") == 0 {
			// the same alternative twice in one definition (told apart by their
			// actions only): the copy declared first is the one to reduce by
			pi := rapid.IntRange(0, len(b.prods)-1).Draw(t, "dupProd")
			if n := len(b.prods[pi].Alts); n > 0 {
				ai := rapid.IntRange(0, n-1).Draw(t, "dupAltAt")
				cp := b.prods[pi].Alts[ai]
				cp.Syms = append([]gr.Sym{}, cp.Syms...)
				at := rapid.IntRange(ai+1, n).Draw(t, "dupAltTo")
				alts := append([]gr.Alt_{}, b.prods[pi].Alts[:at]...)
				alts = append(alts, cp)
				alts = append(alts, b.prods[pi].Alts[at:]...)
				b.prods[pi].Alts = alts
			}
		}
		if o.RRTwin && b.nNT < len(ntNames) && rapid.IntRange(0, 1).Draw(t, "rrTwin") == 0 {
			// X : … | body | … becomes ambiguous with Z : body wherever X is used:
			// which reduction wins is decided by the production numbers alone
			type use struct{ p, a, s int }
			var uses []use
			for pi := range b.prods {
				for ai := range b.prods[pi].Alts {
					for si, sy := range b.prods[pi].Alts[ai].Syms {
						if sy.Kind == gr.SNT {
							uses = append(uses, use{pi, ai, si})
						}
					}
				}
			}
			if len(uses) > 0 {
				u := uses[rapid.IntRange(0, len(uses)-1).Draw(t, "twinUse")]
				xName := b.prods[u.p].Alts[u.a].Syms[u.s].Name
				var bodies [][]gr.Sym
				for _, p := range b.prods {
					if p.Name == xName {
						for _, a := range p.Alts {
							if !a.Error && (a.Empty || len(a.Syms) > 0) {
								bodies = append(bodies, a.Syms) // nil for an empty alternative
							}
						}
					}
				}
				if len(bodies) > 0 {
					body := bodies[rapid.IntRange(0, len(bodies)-1).Draw(t, "twinBody")]
					zName := ntNames[b.nNT]
					b.nNT++
					// fillers push the production numbers into two digits
					nFill := rapid.IntRange(0, 6).Draw(t, "fillers")
					var extra []gr.Prod
					for f := 0; f < nFill && b.nNT < len(ntNames); f++ {
						extra = append(extra, gr.Prod{Name: ntNames[b.nNT], Alts: []gr.Alt_{{Syms: []gr.Sym{b.term()}}}})
						b.nNT++
					}
					z := gr.Prod{Name: zName, Alts: []gr.Alt_{{Syms: append([]gr.Sym{}, body...), Empty: len(body) == 0}}}
					// the use site gets a sibling alternative with Z in place of X
					orig := b.prods[u.p].Alts[u.a]
					cp := gr.Alt_{Syms: append([]gr.Sym{}, orig.Syms...)}
					cp.Syms[u.s] = nt(zName)
					b.prods[u.p].Alts = append(b.prods[u.p].Alts, cp)
					at := rapid.IntRange(1, len(b.prods)).Draw(t, "twinPos")
					np := append([]gr.Prod{}, b.prods[:at]...)
					if rapid.Bool().Draw(t, "fillersFirst") {
						np = append(np, extra...)
						np = append(np, z)
					} else {
						np = append(np, z)
						np = append(np, extra...)
					}
					b.prods = append(np, b.prods[at:]...)
				}
			}
		}
		// a nonterminal may be defined by several rules with other rules in
		// between (gocc's BNF accepts that): split one definition
		splitP := 4
		if o.SplitMore {
			splitP = 1
		}
		if !o.NoSplit && len(b.prods) >= 2 && rapid.IntRange(0, splitP).Draw(t, "splitDef") == 0 {
			var cands []int
			for i := range b.prods {
				if len(b.prods[i].Alts) >= 2 {
					cands = append(cands, i)
				}
			}
			if len(cands) > 0 {
				pi := rapid.SampledFrom(cands).Draw(t, "splitProd")
				k := rapid.IntRange(1, len(b.prods[pi].Alts)-1).Draw(t, "splitAt")
				tail := gr.Prod{Name: b.prods[pi].Name, Alts: append([]gr.Alt_{}, b.prods[pi].Alts[k:]...)}
				b.prods[pi].Alts = b.prods[pi].Alts[:k]
				at := rapid.IntRange(pi+1, len(b.prods)).Draw(t, "splitPos")
				if at == pi+1 && len(b.prods) > pi+1 {
					at = pi + 2 // at least one other rule in between when possible
				}
				np := append([]gr.Prod{}, b.prods[:at]...)
				np = append(np, tail)
				np = append(np, b.prods[at:]...)
				b.prods = np
			}
		}
		if len(b.prods) >= 3 && rapid.IntRange(0, 3).Draw(t, "shuffleRules") == 0 {
			// rules in any order behind the first one (the start symbol): a
			// nonterminal may be defined before the first rule that refers to it
			rest := rapid.Permutation(b.prods[1:]).Draw(t, "ruleOrder")
			b.prods = append([]gr.Prod{b.prods[0]}, rest...)
		}
		g := &gr.Grammar{Prods: b.prods}
		if o.Actions {
			AddActions(t, g, o)
		}
		return g
	})
}

// AddActions decorates alternatives with actions. Styles: none (default
// action), pass-through "$k, nil", or a recording call h.N($Context, tag, args…).
// allRec forces a recording call on every alternative (needed when the
// reduction sequence itself is the observable).
func AddActions(t *rapid.T, g *gr.Grammar, o SynOpts) {
	actPkg := o.ActPkg
	if actPkg == "" {
		actPkg = "verif.local/h/act"
	}
	g.Header = fmt.Sprintf("import h %q\n\nvar _ = h.N", actPkg)
	useT := false
	pn := 0
	for i := range g.Prods {
		for j := range g.Prods[i].Alts {
			pn++
			a := &g.Prods[i].Alts[j]
			n := a.NumBody()
			tag := fmt.Sprintf("p%d", pn)
			if rapid.IntRange(0, 7).Draw(t, "percentTag") == 0 {
				// action text is Go source, not a format string
				tag += rapid.SampledFrom([]string{"%d", "%", "%%", "%s%v"}).Draw(t, "percent")
			}
			style := rapid.IntRange(0, 9).Draw(t, "actStyle")
			if a.Empty && !o.AllRec && rapid.Bool().Draw(t, "emptyWithoutAction") {
				style = 0 // the usual way to write an optional part: its value is nil
			}
			if o.AllRec && style < 2 {
				style = 5
			}
			switch {
			case style == 0: // default action
				a.Spec, a.Action = nil, ""
				continue
			case style == 1 && n > 0: // pass-through of one attribute
				a.Spec = &gr.ActSpec{Style: "pass", K: rapid.IntRange(0, n-1).Draw(t, "passIdx")}
			case style == 2: // recording call without arguments
				a.Spec = &gr.ActSpec{Style: "rec", Tag: tag}
			default:
				sp := &gr.ActSpec{Style: "rec", Tag: tag}
				for k := 0; k < n; k++ {
					if rapid.IntRange(0, 4).Draw(t, "dropArg") == 0 && n > 1 {
						continue
					}
					isTerm := false
					if a.Error {
						if k > 0 {
							isTerm = a.Syms[k-1].Kind != gr.SNT
						}
					} else {
						isTerm = a.Syms[k].Kind != gr.SNT
					}
					asTok := isTerm && !o.NoTokCast && rapid.Bool().Draw(t, "useT")
					if asTok {
						useT = true
					}
					sp.Args = append(sp.Args, gr.ActArg{Idx: k, AsTok: asTok})
				}
				// occasionally repeat or reorder arguments
				if len(sp.Args) > 1 && rapid.IntRange(0, 5).Draw(t, "shuffleArgs") == 0 {
					sp.Args = rapid.Permutation(sp.Args).Draw(t, "argPerm")
				}
				a.Spec = sp
			}
			a.Action = a.Spec.Render()
		}
	}
	if useT {
		g.Header = fmt.Sprintf("import (\n\th %q\n\t\"TOKENPKG\"\n)\n\nvar _ = h.N", actPkg)
	}
}

// ForceRecording gives every alternative that has no recording action one
// (tag q<i>, all body attributes in order). A parser generated with -a from an
// ambiguous grammar may legitimately reduce for ever without reading a token
// (B : empty in front of a recursion); with a recording call in every
// reduction such a run ends in the harness's call budget instead of hanging.
func ForceRecording(g *gr.Grammar) {
	pn := 0
	for i := range g.Prods {
		for j := range g.Prods[i].Alts {
			pn++
			a := &g.Prods[i].Alts[j]
			if a.Spec != nil && a.Spec.Style == "rec" {
				continue
			}
			sp := &gr.ActSpec{Style: "rec", Tag: fmt.Sprintf("q%d", pn)}
			for k := 0; k < a.NumBody(); k++ {
				sp.Args = append(sp.Args, gr.ActArg{Idx: k})
			}
			a.Spec = sp
			a.Action = sp.Render()
		}
	}
	if !strings.Contains(g.Header, "h.N") {
		h := "import h \"verif.local/h/act\"\n\nvar _ = h.N"
		if g.Header != "" {
			h += "\n\n" + g.Header
		}
		g.Header = h
	}
}

package gen

import (
	"strings"
	"unicode"
	"unicode/utf8"

	"pgregory.net/rapid"
	"verif.local/h/gr"
)

// RespellStats reports what a respelling contains.
type RespellStats struct {
	Comments      int
	Reencoded     int // char literals written in another form
	ReencodedHigh int // of those, code points >= 0x80 or control characters
	QuoteSwitches int
}

// CharForms returns every spelling of rune r as a gocc character literal.
func CharForms(r rune) []string { return gr.CharForms(r) }

func randCaseHex(t *rapid.T, s string) string {
	// only the hex digits of \x \u \U escapes may change case
	if len(s) < 4 || s[1] != '\\' || (s[2] != 'x' && s[2] != 'u' && s[2] != 'U') {
		return s
	}
	b := []byte(s)
	for i := 3; i < len(b)-1; i++ {
		if b[i] >= 'a' && b[i] <= 'f' && rapid.Bool().Draw(t, "upperHex") {
			b[i] = b[i] - 'a' + 'A'
		}
	}
	return string(b)
}

func isWordByte(r rune) bool {
	return r == '_' || r == '!' || unicode.IsLetter(r) || unicode.IsDigit(r)
}

func needSpace(a, b string) bool {
	if a == "" || b == "" {
		return false
	}
	la, _ := utf8.DecodeLastRuneInString(a)
	fb, _ := utf8.DecodeRuneInString(b)
	if isWordByte(la) && isWordByte(fb) {
		return true
	}
	// "/" "/" or "/" "*" would start a comment, "<" "<" an SDT: none of these
	// occur as adjacent grammar tokens
	return false
}

var commentWords = []string{"*", "**", "***", " doc **", "* a * b **", "/", "/*", "x", "token : 'a' ;", "A : b | c ;", "<< not code >>", "\"str\"", "'q'", "`raw`", "é世", "* /", "/ /", "", "//", "'"}

func genComment(t *rapid.T, lineOK bool) string {
	body := rapid.SampledFrom(commentWords).Draw(t, "commentBody")
	if lineOK && rapid.Bool().Draw(t, "lineComment") {
		if strings.HasPrefix(body, "line ") {
			body = "x" + body
		}
		return "//" + body + "\n"
	}
	body = strings.ReplaceAll(body, "*/", "* /")
	if rapid.Bool().Draw(t, "multiLineComment") {
		body += "\n more"
	}
	return "/*" + body + "*/"
}

func genLayout(t *rapid.T) string {
	return rapid.SampledFrom([]string{" ", "  ", "\t", "\n", "\r\n", "\n\n", " \t ", "\r"}).Draw(t, "layout")
}

// Respell renders the token list with random layout, comments, character
// literal spellings and string quoting. SDT tokens are copied byte for byte.
func Respell(t *rapid.T, toks []gr.Tok) (string, RespellStats) {
	var st RespellStats
	var b strings.Builder
	sep := func(prev, next string) {
		n := rapid.IntRange(0, 5).Draw(t, "sepKind")
		wrote := false
		switch {
		case n == 0: // nothing, where the scanner allows
		case n <= 3:
			b.WriteString(genLayout(t))
			wrote = true
		default:
			if rapid.Bool().Draw(t, "layoutBeforeComment") {
				b.WriteString(genLayout(t))
			}
			c := genComment(t, true)
			b.WriteString(c)
			st.Comments++
			wrote = true
			if rapid.Bool().Draw(t, "layoutAfterComment") {
				b.WriteString(genLayout(t))
			}
		}
		if !wrote && needSpace(prev, next) {
			b.WriteString(" ")
		}
	}
	prev := ""
	for i, tk := range toks {
		text := tk.Text
		switch tk.Class {
		case "char_lit":
			r, ok := decodeCanon(tk.Text)
			if ok {
				forms := CharForms(r)
				f := forms[rapid.IntRange(0, len(forms)-1).Draw(t, "charForm")]
				f = randCaseHex(t, f)
				if f != tk.Text {
					st.Reencoded++
					if r >= 0x80 || r < 0x20 {
						st.ReencodedHigh++
					}
				}
				text = f
			}
		case "string_lit":
			content := tk.Text[1 : len(tk.Text)-1]
			canSwitch := switchable(content)
			if canSwitch && rapid.Bool().Draw(t, "switchQuote") {
				if tk.Text[0] == '"' {
					text = "`" + content + "`"
				} else {
					text = `"` + content + `"`
				}
				st.QuoteSwitches++
			}
		}
		if i == 0 {
			// layout/comment before the first token
			if rapid.IntRange(0, 2).Draw(t, "leading") == 0 {
				sep("", text)
			}
		} else {
			sep(prev, text)
		}
		b.WriteString(text)
		prev = text
	}
	// trailing: nothing, layout, comment, or an unterminated line comment at EOF
	switch rapid.IntRange(0, 4).Draw(t, "trailing") {
	case 1:
		b.WriteString(genLayout(t))
	case 2:
		b.WriteString(" " + genComment(t, true))
		st.Comments++
	case 3:
		b.WriteString(" // no newline at end of file")
		st.Comments++
	}
	return b.String(), st
}

// decodeCanon decodes a canonical character literal produced by gr.CharLit.
func decodeCanon(lit string) (rune, bool) {
	g, err := gr.Parse("x : " + lit + " ;")
	if err != nil || len(g.Lex) != 1 || g.Lex[0].Pat.Kind != gr.PLit {
		return 0, false
	}
	return g.Lex[0].Pat.Lo, true
}

// switchable: the content can be carried unchanged by both quoting styles.
// gocc takes the text between the quotes as it stands in either style; in the
// interpreted style a backslash only matters for finding the closing quote (it
// hides the character after it), so backslashes are fine as long as every one
// of them has a character to hide and the content holds no quote of either kind.
func switchable(content string) bool {
	if strings.ContainsAny(content, "\"`\n") || content == "" {
		return false
	}
	for i := 0; i < len(content); i++ {
		if content[i] == '\\' {
			i++
			if i >= len(content) {
				return false
			}
		}
	}
	return true
}

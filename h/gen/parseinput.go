package gen

import (
	"pgregory.net/rapid"
	"verif.local/h/cfg"
)

// ParseInput is a token sequence for a generated parser: terminal ids of the
// reference CFG (-1 = a token that is no terminal of the grammar, delivered as
// INVALID). Tree is set when the sequence is the unmodified yield of a
// derivation.
type ParseInput struct {
	Toks []int
	Tree *cfg.Tree
	Kind string // sentence | mutated | random
}

// inputTerms lists the terminals that may appear in inputs (not end-of-input,
// not the error symbol).
func inputTerms(c *cfg.CFG) []int {
	var out []int
	for i := 1; i < len(c.Terms); i++ {
		if c.Terms[i] == "error" {
			continue
		}
		out = append(out, i)
	}
	return out
}

// DrawParseInput draws an input. nMut is the maximal number of mutations
// applied to a sentence (0 = library default of 1..2).
func DrawParseInput(t *rapid.T, c *cfg.CFG, d *cfg.Deriver, maxLen int, nMut int, sentenceBias int) ParseInput {
	terms := inputTerms(c)
	if len(terms) == 0 {
		return ParseInput{Kind: "random"}
	}
	mode := rapid.IntRange(0, 99).Draw(t, "inputMode")
	if !d.CanDerive() && mode < 80 {
		mode = 90
	}
	switch {
	case mode < sentenceBias:
		tr, y := d.Derive(t, rapid.IntRange(1, 7).Draw(t, "height"))
		if len(y) > maxLen {
			tr, y = d.Derive(t, 1)
		}
		return ParseInput{Toks: y, Tree: tr, Kind: "sentence"}
	case mode < 80:
		_, y := d.Derive(t, rapid.IntRange(1, 7).Draw(t, "heightM"))
		if len(y) > maxLen {
			_, y = d.Derive(t, 1)
		}
		y = append([]int{}, y...)
		if nMut <= 0 {
			nMut = 2
		}
		n := rapid.IntRange(1, nMut).Draw(t, "nMut")
		for k := 0; k < n; k++ {
			y = mutate(t, y, terms)
		}
		if len(y) > maxLen {
			y = y[:maxLen]
		}
		return ParseInput{Toks: y, Kind: "mutated"}
	default:
		n := rapid.IntRange(0, min(maxLen, 12)).Draw(t, "randLen")
		y := make([]int, n)
		for i := range y {
			y[i] = rapid.SampledFrom(terms).Draw(t, "randTok")
		}
		return ParseInput{Toks: y, Kind: "random"}
	}
}

func mutate(t *rapid.T, y []int, terms []int) []int {
	pick := func() int {
		if rapid.IntRange(0, 19).Draw(t, "invalidTok") == 0 {
			return -1
		}
		return rapid.SampledFrom(terms).Draw(t, "mutTok")
	}
	op := rapid.IntRange(0, 4).Draw(t, "mutOp")
	if len(y) == 0 {
		op = 1
	}
	switch op {
	case 0: // delete
		i := rapid.IntRange(0, len(y)-1).Draw(t, "delAt")
		return append(append([]int{}, y[:i]...), y[i+1:]...)
	case 1: // insert
		i := rapid.IntRange(0, len(y)).Draw(t, "insAt")
		out := append([]int{}, y[:i]...)
		out = append(out, pick())
		return append(out, y[i:]...)
	case 2: // substitute
		i := rapid.IntRange(0, len(y)-1).Draw(t, "subAt")
		out := append([]int{}, y...)
		out[i] = pick()
		return out
	case 3: // transpose
		if len(y) < 2 {
			return y
		}
		i := rapid.IntRange(0, len(y)-2).Draw(t, "swapAt")
		out := append([]int{}, y...)
		out[i], out[i+1] = out[i+1], out[i]
		return out
	default: // proper prefix
		i := rapid.IntRange(0, len(y)-1).Draw(t, "cutAt")
		return append([]int{}, y[:i]...)
	}
}

// DeepInput draws a long token sequence (105-150 tokens) made of a short
// repeated pattern: in grammars with right recursion or bracket nesting it
// drives the parser stack far beyond its initial capacity.
func DeepInput(t *rapid.T, c *cfg.CFG) []int {
	terms := inputTerms(c)
	if len(terms) == 0 {
		return nil
	}
	pat := rapid.SliceOfN(rapid.SampledFrom(terms), 1, 3).Draw(t, "deepPattern")
	n := rapid.IntRange(105, 150).Draw(t, "deepLen")
	out := make([]int, 0, n+4)
	for len(out) < n {
		out = append(out, pat...)
	}
	tail := rapid.SliceOfN(rapid.SampledFrom(terms), 0, 4).Draw(t, "deepTail")
	return append(out, tail...)
}

// DeepPattern is a terminal sequence that can be repeated (behind Lead) without
// leaving the language's prefixes, as far as 12 repetitions tell: nested
// brackets, right recursion, lists.
type DeepPattern struct{ Lead, Pat []int }

// DeepPatterns finds such sequences (lead of at most one terminal, pattern of
// one or two) with the Earley recogniser.
func DeepPatterns(c *cfg.CFG, e *cfg.Earley) []DeepPattern {
	terms := inputTerms(c)
	var leads [][]int
	leads = append(leads, nil)
	for _, t := range terms {
		leads = append(leads, []int{t})
	}
	var pats [][]int
	for _, a := range terms {
		pats = append(pats, []int{a})
		for _, b := range terms {
			if a != b {
				pats = append(pats, []int{a, b})
			}
		}
	}
	var out []DeepPattern
	for _, l := range leads {
		for _, p := range pats {
			in := append([]int{}, l...)
			for k := 0; k < 12; k++ {
				in = append(in, p...)
			}
			if e.ViablePrefixLen(in) == len(in) {
				out = append(out, DeepPattern{Lead: l, Pat: p})
			}
		}
		if len(out) > 40 {
			break
		}
	}
	return out
}

// DeepInputFrom is DeepInput that prefers a repeatable pattern when there is one.
func DeepInputFrom(t *rapid.T, c *cfg.CFG, pats []DeepPattern) []int {
	if len(pats) == 0 || rapid.IntRange(0, 3).Draw(t, "deepBlind") == 0 {
		return DeepInput(t, c)
	}
	p := pats[rapid.IntRange(0, len(pats)-1).Draw(t, "deepPatternOf")]
	n := rapid.IntRange(105, 150).Draw(t, "deepLenP")
	out := append([]int{}, p.Lead...)
	for len(out) < n {
		out = append(out, p.Pat...)
	}
	terms := inputTerms(c)
	tail := rapid.SliceOfN(rapid.SampledFrom(terms), 0, 4).Draw(t, "deepTailP")
	return append(out, tail...)
}

package gen

import (
	"fmt"
	"strings"

	"pgregory.net/rapid"
	"verif.local/h/gr"
)

// Hostile spellings (C09 arm A, C10): well-formed grammars whose string
// literals, names and action expressions contain characters that are awkward to
// splice into Go source.

// hostile literal contents; q = quoting style that can carry it (0 "…", 1 `…`, 2 either)
var hostileLits = []struct {
	s string
	q int
}{
	{`"`, 1}, {`say "hi"`, 1}, {"`", 0}, {"a`b", 0}, {`\`, 1}, {`\\`, 2}, {`a\\`, 2}, {`\\\\`, 2}, {`\"`, 0}, {`\n`, 0}, {`a\tb`, 1},
	{`'`, 2}, {`$`, 2}, {`$0`, 2}, {`%`, 2}, {`%d`, 2}, {`%!s`, 2}, {`{{`, 2}, {`{{.}}`, 2}, {`}}`, 2}, {`*/`, 2}, {`/*`, 2}, {`//`, 2},
	{`é`, 2}, {`世界`, 2}, {"\t", 2}, {`<-`, 2}, {`:=`, 2}, {`;`, 2}, {`|`, 2}, {`<<`, 2}, {`>`, 2}, {`\x41`, 1}, {`"\"`, 1},
	{`unknown`, 2}, {`Error`, 2}, {`EOF`, 2}, {"a\nb", 1}, {"\r", 1}, {"x\n// y", 1},
	{"a\x00b", 2}, {"\xff", 2}, {"a\xc3", 2}, {"\ufeff", 2}, {"\u2028", 2}, {"\x1b[0m", 2}, {"\x7f", 2},
}

var hostileTokNames = []string{"tké", "t!x", "t_1", "tñ9", "tk世", "t!", "int64", "type", "func", "nil"}
var hostileProdNames = []string{"Ünï", "P_1", "P!q", "Éa", "Type", "Pworld世"}

var hostileActions = []string{
	`h.N($Context, "p")`,
	`h.N($Context, "a > b < c")`,
	"h.N($Context, `raw string`)",
	`h.N($Context, "cost: $9 or $x", $0)`,
	`h.N($Context, "%d %s %v", $0) // trailing comment`,
	`h.N($Context, "{{.}}", $0)`,
	`h.N($Context, /* inline */ "c", $0)`,
	`h.N($Context, "quote \" inside", $0)`,
	`$0, nil`,
	`func() (interface{}, error) { if 1 > 0 { return $0, nil }; return nil, nil }()`,
	`h.N($Context, "tab	inside", $0)`,
	`h.N($Context, "é世", $0)`,
}

// HostileGrammar returns a well-formed grammar with hostile spellings and a
// flag saying whether any hostile element is present.
func HostileGrammar() *rapid.Generator[*gr.Grammar] {
	return rapid.Custom(func(t *rapid.T) *gr.Grammar {
		var terms []gr.Sym
		nLit := rapid.IntRange(1, 4).Draw(t, "nHostLit")
		seen := map[string]bool{}
		for i := 0; i < nLit; i++ {
			h := rapid.SampledFrom(hostileLits).Draw(t, "hostLit")
			if seen[h.s] {
				continue
			}
			seen[h.s] = true
			q := h.q
			if q == 2 {
				q = rapid.IntRange(0, 1).Draw(t, "hostQ")
			}
			terms = append(terms, gr.Sym{Kind: gr.SLit, Name: h.s, Quote: q})
		}
		nTok := rapid.IntRange(0, 3).Draw(t, "nHostTok")
		var lex []gr.LexDef
		c := 'a'
		for i := 0; i < nTok; i++ {
			n := rapid.SampledFrom(hostileTokNames).Draw(t, "hostTok")
			if seen[n] {
				continue
			}
			seen[n] = true
			terms = append(terms, gr.Sym{Kind: gr.STok, Name: n})
			lex = append(lex, gr.LexDef{Name: n, Kind: gr.DTok, Pat: gr.Lit(c)})
			c++
		}
		if rapid.Bool().Draw(t, "hostIgnored") {
			lex = append(lex, gr.LexDef{Name: "!ws" + rapid.SampledFrom([]string{"", "é", "_1", "!x"}).Draw(t, "ignSuffix"), Kind: gr.DIgn, Pat: gr.Lit(' ')})
		}
		g := SynGrammar(SynOpts{Terms: terms, MaxNT: 3}).Draw(t, "hostSyn")
		g.Lex = lex
		// rename nonterminals
		if rapid.Bool().Draw(t, "renameNT") {
			ren := map[string]string{}
			names := rapid.Permutation(hostileProdNames).Draw(t, "ntPerm")
			for i, p := range g.Prods {
				if i < len(names) && rapid.Bool().Draw(t, "renameThis") {
					ren[p.Name] = names[i]
				}
			}
			for i := range g.Prods {
				if n, ok := ren[g.Prods[i].Name]; ok {
					g.Prods[i].Name = n
				}
				for j := range g.Prods[i].Alts {
					for k := range g.Prods[i].Alts[j].Syms {
						s := &g.Prods[i].Alts[j].Syms[k]
						if s.Kind == gr.SNT {
							if n, ok := ren[s.Name]; ok {
								s.Name = n
							}
						}
					}
				}
			}
		}
		// actions
		if rapid.Bool().Draw(t, "hostActions") {
			imports := []string{`h "verif.local/h/act"`}
			if rapid.Bool().Draw(t, "moreImports") {
				imports = append(imports, `"fmt"`, `str "strings"`)
			}
			hdr := "import (\n\t" + strings.Join(imports, "\n\t") + "\n)\n\nvar _ = h.N"
			if len(imports) > 1 {
				hdr += "\nvar _ = fmt.Sprint\nvar _ = str.TrimSpace"
			}
			g.Header = hdr
			for i := range g.Prods {
				for j := range g.Prods[i].Alts {
					a := &g.Prods[i].Alts[j]
					if rapid.IntRange(0, 2).Draw(t, "hasAct") == 0 {
						continue
					}
					act := rapid.SampledFrom(hostileActions).Draw(t, "hostAct")
					if a.NumBody() == 0 && strings.Contains(act, "$0") {
						act = `h.N($Context, "e")`
					}
					a.Action = act
				}
			}
		}
		return g
	})
}

// ShapeGrammar returns lexical grammars whose patterns are aimed at the
// item-set worklists (C09 arm B): nested nullable repetitions/options, deep
// groups, long alternations, regular-definition chains.
func ShapeGrammar() *rapid.Generator[*gr.Grammar] {
	return rapid.Custom(func(t *rapid.T) *gr.Grammar {
		leaf := func() *gr.Pat {
			return gr.Lit(rapid.SampledFrom([]rune{'a', 'b', 'c', 'd'}).Draw(t, "shapeLeaf"))
		}
		var shape func(d int) *gr.Pat
		shape = func(d int) *gr.Pat {
			if d <= 0 {
				return leaf()
			}
			switch rapid.IntRange(0, 9).Draw(t, "shape") {
			case 0:
				return gr.Rep(gr.Opt(shape(d - 1)))
			case 1:
				return gr.Rep(gr.Rep(shape(d - 1)))
			case 2:
				return gr.Opt(gr.Rep(shape(d - 1)))
			case 3:
				return gr.Rep(gr.Alt(shape(d-1), gr.Opt(shape(d-1))))
			case 4:
				return gr.Grp(gr.Grp(gr.Grp(shape(d - 1))))
			case 5:
				n := rapid.IntRange(3, 8).Draw(t, "altLen")
				var ps []*gr.Pat
				for i := 0; i < n; i++ {
					ps = append(ps, shape(d-2))
				}
				return gr.Alt(ps...)
			case 6:
				return gr.Seq(shape(d-1), shape(d-1))
			case 7:
				return gr.Opt(gr.Opt(shape(d - 1)))
			case 8:
				return gr.Rep(gr.Seq(gr.Opt(shape(d-1)), gr.Opt(shape(d-1))))
			default:
				return leaf()
			}
		}
		g := &gr.Grammar{}
		nReg := rapid.IntRange(0, 3).Draw(t, "chainLen")
		prev := ""
		for i := 0; i < nReg; i++ {
			name := fmt.Sprintf("_c%d", i)
			p := shape(2)
			if prev != "" {
				p = gr.Seq(p, gr.Ref(prev))
				if rapid.Bool().Draw(t, "chainRep") {
					p = gr.Rep(p)
				}
			}
			g.Lex = append(g.Lex, gr.LexDef{Name: name, Kind: gr.DReg, Pat: p})
			prev = name
		}
		// recursive regular definitions (the documentation says they may not be
		// used; gocc must still terminate on them)
		switch rapid.IntRange(0, 7).Draw(t, "recursiveRegdef") {
		case 0:
			g.Lex = append(g.Lex, gr.LexDef{Name: "_rec", Kind: gr.DReg, Pat: gr.Alt(gr.Seq(gr.Ref("_rec"), leaf()), leaf())})
			prev = "_rec"
		case 1:
			g.Lex = append(g.Lex, gr.LexDef{Name: "_rec", Kind: gr.DReg, Pat: gr.Alt(gr.Seq(leaf(), gr.Ref("_rec")), leaf())})
			prev = "_rec"
		case 2:
			g.Lex = append(g.Lex,
				gr.LexDef{Name: "_ma", Kind: gr.DReg, Pat: gr.Alt(gr.Seq(gr.Ref("_mb"), leaf()), leaf())},
				gr.LexDef{Name: "_mb", Kind: gr.DReg, Pat: gr.Alt(gr.Seq(gr.Ref("_ma"), leaf()), leaf())})
			prev = "_ma"
		}
		nTok := rapid.IntRange(1, 3).Draw(t, "shapeToks")
		for i := 0; i < nTok; i++ {
			p := shape(rapid.IntRange(1, 4).Draw(t, "shapeDepth"))
			if prev != "" && rapid.Bool().Draw(t, "useChain") {
				p = gr.Seq(p, gr.Ref(prev))
			}
			// keep the top level non-nullable so that the lexer is meaningful
			p = gr.Seq(p, gr.Lit('z'))
			g.Lex = append(g.Lex, gr.LexDef{Name: fmt.Sprintf("t%d", i), Kind: gr.DTok, Pat: p})
		}
		return g
	})
}

// MutateSource applies byte- or token-level damage to a grammar text that has
// no << >> (C09 arm C). '<' is never inserted.
func MutateSource(t *rapid.T, src string) string {
	b := []byte(src)
	n := rapid.IntRange(1, 3).Draw(t, "nSrcMut")
	junk := []string{"'", "\"", "`", "\\", ":", ";", "|", "(", ")", "[", "]", "{", "}", ".", "-", "_", "!", "/", "//", "/*", "*/", "\n", " ", "\x00", "\xff", "é", "A", "a", "_x", "!y", "'a'", "\"s\"", "error", "empty", "$", "#", ",", "=", "'\\", "'\\u", "'\\x4", "'ab'", "''"}
	for k := 0; k < n; k++ {
		if len(b) == 0 {
			break
		}
		switch rapid.IntRange(0, 4).Draw(t, "srcMutOp") {
		case 0: // delete a byte range
			i := rapid.IntRange(0, len(b)-1).Draw(t, "delFrom")
			j := i + rapid.IntRange(1, 4).Draw(t, "delLen")
			if j > len(b) {
				j = len(b)
			}
			b = append(b[:i:i], b[j:]...)
		case 1, 2: // insert junk
			i := rapid.IntRange(0, len(b)).Draw(t, "insAt")
			j := rapid.SampledFrom(junk).Draw(t, "junk")
			nb := append([]byte{}, b[:i]...)
			nb = append(nb, j...)
			b = append(nb, b[i:]...)
		case 3: // duplicate a range
			i := rapid.IntRange(0, len(b)-1).Draw(t, "dupFrom")
			j := i + rapid.IntRange(1, 12).Draw(t, "dupLen")
			if j > len(b) {
				j = len(b)
			}
			nb := append([]byte{}, b[:j]...)
			nb = append(nb, b[i:j]...)
			b = append(nb, b[j:]...)
		default: // replace one byte
			i := rapid.IntRange(0, len(b)-1).Draw(t, "repAt")
			c := rapid.SampledFrom([]byte{'\'', '"', '`', ':', ';', '|', 'A', 'a', '_', '!', ' ', '\n', '.', '-', '{', '}', 0xff}).Draw(t, "repByte")
			b[i] = c
		}
	}
	s := string(b)
	return strings.ReplaceAll(s, "<<", "< <")
}

// HostileLit returns the i-th hostile literal (cyclically) as a symbol, so that
// a corpus can cover every one of them.
func HostileLit(i int) gr.Sym {
	h := hostileLits[i%len(hostileLits)]
	q := h.q
	if q == 2 {
		q = i % 2
	}
	return gr.Sym{Kind: gr.SLit, Name: h.s, Quote: q}
}

func NumHostileLits() int { return len(hostileLits) }

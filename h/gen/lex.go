// Package gen holds the rapid generators for grammars and inputs.
package gen

import (
	"fmt"
	"unicode/utf8"

	"pgregory.net/rapid"
	"verif.local/h/gr"
	"verif.local/h/lexnfa"
)

// small alphabet: overlapping patterns, prefixes of one token that are lexemes
// of another, and layout characters that matter for positions.
var smallAlpha = []rune{'a', 'b', 'c', ' ', '\t', '\n', '\r'}

// Unicode edges.
var edgeRunes = []rune{0, 0x7f, 0x80, 0x7ff, 0x800, 0xd7ff, 0xe000, 0xfffd, 0xffff, 0x10000, 0x10ffff, 0xe9, 0x4e16, 0x1f600, '\'', '\\', '"', '`', '$', '%',
	'\a', '\b', '\f', '\v', 0xfeff,
	// code points whose low byte equals an ASCII letter of the small alphabet
	0x161, 0x2262, 0x4e63, 0x120}

func genRune(edge bool) *rapid.Generator[rune] {
	return rapid.Custom(func(t *rapid.T) rune {
		if edge && rapid.IntRange(0, 2).Draw(t, "edgeSel") == 0 {
			return rapid.SampledFrom(edgeRunes).Draw(t, "edgeRune")
		}
		return rapid.SampledFrom(smallAlpha).Draw(t, "rune")
	})
}

type patCtx struct {
	edge   bool
	refs   []string // regdefs that may be referenced
	leaves *int     // remaining leaf budget
	dotOK  bool
	wideOK bool
}

func genLeaf(t *rapid.T, c *patCtx) *gr.Pat {
	*c.leaves--
	k := rapid.IntRange(0, 11).Draw(t, "leafKind")
	switch {
	case k <= 5:
		return gr.Lit(genRune(c.edge).Draw(t, "lit"))
	case k <= 7:
		a := genRune(c.edge).Draw(t, "lo")
		b := genRune(c.edge).Draw(t, "hi")
		if a > b {
			a, b = b, a
		}
		if c.edge && rapid.IntRange(0, 3).Draw(t, "wide") == 0 {
			// wide / adjacent ranges
			b = a + rune(rapid.IntRange(0, 0x900).Draw(t, "span"))
			if b > utf8.MaxRune {
				b = utf8.MaxRune
			}
		}
		if !c.edge {
			// small ranges over a..c
			a = rune('a' + rapid.IntRange(0, 2).Draw(t, "loS"))
			b = a + rune(rapid.IntRange(0, 2).Draw(t, "spanS"))
			if b > 'd' {
				b = 'd'
			}
		}
		// ranges may not span the surrogate gap ends in a way that makes
		// endpoints unrepresentable: endpoints must be scalar values
		a, b = fixScalar(a), fixScalar(b)
		if a > b {
			a, b = b, a
		}
		return gr.Range(a, b)
	case k <= 8 && c.dotOK:
		return gr.Dot()
	case k <= 10 && len(c.refs) > 0:
		return gr.Ref(rapid.SampledFrom(c.refs).Draw(t, "ref"))
	}
	return gr.Lit(genRune(c.edge).Draw(t, "lit2"))
}

func fixScalar(r rune) rune {
	if r >= 0xd800 && r <= 0xdfff {
		return 0xd7ff
	}
	if r > utf8.MaxRune {
		return utf8.MaxRune
	}
	if r < 0 {
		return 0
	}
	return r
}

// genWideAlt: an alternation with ten or more alternatives at one level
// ('0' | '1' | … | '9', keyword lists): item positions need two digits.
func genWideAlt(t *rapid.T, c *patCtx) *gr.Pat {
	n := rapid.IntRange(10, 13).Draw(t, "wideN")
	*c.leaves -= 2
	var ps []*gr.Pat
	base := rapid.SampledFrom([]rune{'a', '0', 'a', 0x3b1}).Draw(t, "wideBase")
	for i := 0; i < n; i++ {
		r := base + rune(i%5)
		switch rapid.IntRange(0, 3).Draw(t, "wideAltKind") {
		case 0:
			ps = append(ps, gr.Seq(gr.Lit(r), gr.Lit(base+rune((i+1)%3))))
		case 1:
			ps = append(ps, gr.Seq(gr.Lit(r), gr.Lit(base+rune((i+1)%3)), gr.Lit(base+rune(i%2))))
		default:
			ps = append(ps, gr.Lit(base+rune(i)))
		}
	}
	return gr.Grp(gr.Alt(ps...))
}

func genPat(t *rapid.T, c *patCtx, depth int) *gr.Pat {
	if depth <= 0 || *c.leaves <= 1 {
		return genLeaf(t, c)
	}
	if c.wideOK && rapid.IntRange(0, 24).Draw(t, "wide") == 0 {
		return genWideAlt(t, c)
	}
	switch rapid.IntRange(0, 9).Draw(t, "node") {
	case 0, 1, 2:
		return genLeaf(t, c)
	case 3, 4:
		n := rapid.IntRange(2, 3).Draw(t, "seqN")
		var ps []*gr.Pat
		for i := 0; i < n && (*c.leaves > 0 || i == 0); i++ {
			ps = append(ps, genPat(t, c, depth-1))
		}
		return gr.Seq(ps...)
	case 5, 6:
		n := rapid.IntRange(2, 3).Draw(t, "altN")
		var ps []*gr.Pat
		for i := 0; i < n && (*c.leaves > 0 || i == 0); i++ {
			ps = append(ps, genPat(t, c, depth-1))
		}
		return gr.Alt(ps...)
	case 7:
		return gr.Opt(genPat(t, c, depth-1))
	case 8:
		return gr.Rep(genPat(t, c, depth-1))
	default:
		return gr.Grp(genPat(t, c, depth-1))
	}
}

func genCharClass(t *rapid.T, c *patCtx) *gr.Pat {
	n := rapid.IntRange(1, 3).Draw(t, "ccN")
	var ps []*gr.Pat
	for i := 0; i < n; i++ {
		sub := *c
		sub.refs = nil
		sub.dotOK = false
		l := 1
		sub.leaves = &l
		p := genLeaf(t, &sub)
		ps = append(ps, p)
	}
	// allow references to earlier one-char classes (_idchar : _letter | _digit)
	if len(c.refs) > 0 && rapid.IntRange(0, 2).Draw(t, "ccRef") == 0 {
		ps = append(ps, gr.Ref(rapid.SampledFrom(c.refs).Draw(t, "ccRefN")))
	}
	return gr.Alt(ps...)
}

// LexOpts tunes the lexical grammar generator.
type LexOpts struct {
	MaxTokens  int
	MaxIgnored int
	MaxRegs    int
	MaxLits    int
	MaxLeaves  int
	Depth      int
	NoDot      bool
	// OnlyCharClassRegs restricts regdefs to one-character classes.
	OnlyCharClassRegs bool
}

func DefaultLexOpts() LexOpts {
	return LexOpts{MaxTokens: 5, MaxIgnored: 2, MaxRegs: 3, MaxLits: 3, MaxLeaves: 8, Depth: 4}
}

// LexGrammar generates a grammar whose interest is its lexical part. It has a
// trivial syntax part when it has string literals (or at random).
func LexGrammar(o LexOpts) *rapid.Generator[*gr.Grammar] {
	return rapid.Custom(func(t *rapid.T) *gr.Grammar {
		g := &gr.Grammar{}
		edge := rapid.IntRange(0, 2).Draw(t, "edgeStratum") == 0
		nReg := rapid.IntRange(0, o.MaxRegs).Draw(t, "nReg")
		var regNames []string
		var charClassRegs []string
		var defs []gr.LexDef
		for i := 0; i < nReg; i++ {
			name := fmt.Sprintf("_r%d", i)
			l := o.MaxLeaves
			c := &patCtx{edge: edge, refs: append([]string{}, regNames...), leaves: &l, dotOK: !o.NoDot, wideOK: true}
			var p *gr.Pat
			if o.OnlyCharClassRegs || rapid.IntRange(0, 9).Draw(t, "regKind") < 6 {
				c.refs = append([]string{}, charClassRegs...)
				p = genCharClass(t, c)
				charClassRegs = append(charClassRegs, name)
			} else {
				p = genPat(t, c, o.Depth-1)
			}
			regNames = append(regNames, name)
			defs = append(defs, gr.LexDef{Name: name, Kind: gr.DReg, Pat: p})
		}
		nTok := rapid.IntRange(1, o.MaxTokens).Draw(t, "nTok")
		nIgn := rapid.IntRange(0, o.MaxIgnored).Draw(t, "nIgn")
		mk := func(name string, kind gr.DefKind) {
			l := rapid.IntRange(1, o.MaxLeaves).Draw(t, "leafBudget")
			c := &patCtx{edge: edge, refs: regNames, leaves: &l, dotOK: !o.NoDot, wideOK: true}
			p := genPat(t, c, o.Depth)
			defs = append(defs, gr.LexDef{Name: name, Kind: kind, Pat: p})
		}
		for i := 0; i < nTok; i++ {
			mk(fmt.Sprintf("tk%d", i), gr.DTok)
		}
		for i := 0; i < nIgn; i++ {
			mk(fmt.Sprintf("!ig%d", i), gr.DIgn)
		}
		// two tokens with the same language, one written with regular definitions
		// and one with the definitions expanded in place: only the declaration
		// order may decide which one wins
		if rapid.IntRange(0, 4).Draw(t, "twinToken") == 0 {
			var withRef []int
			for i, d := range defs {
				if d.Kind != gr.DTok {
					continue
				}
				has := false
				d.Pat.Walk(func(p *gr.Pat) {
					if p.Kind == gr.PRef {
						has = true
					}
				})
				if has {
					withRef = append(withRef, i)
				}
			}
			if len(withRef) > 0 {
				src := defs[rapid.SampledFrom(withRef).Draw(t, "twinOf")]
				regs := map[string]*gr.Pat{}
				for _, d := range defs {
					if d.Kind == gr.DReg {
						regs[d.Name] = d.Pat
					}
				}
				defs = append(defs, gr.LexDef{Name: fmt.Sprintf("tk%d", nTok), Kind: gr.DTok, Pat: expandRefs(src.Pat, regs, 0)})
			}
		}
		// declaration order matters for priority: shuffle
		perm := rapid.Permutation(defs).Draw(t, "order")
		g.Lex = perm
		// make top-level patterns non-nullable (see DESIGN 4.1)
		for i := range g.Lex {
			if g.Lex[i].Kind == gr.DReg {
				continue
			}
			nl, err := lexnfa.PatNullable(g, g.Lex[i].Pat)
			if err != nil {
				t.Fatalf("generator bug: %v", err)
			}
			if nl {
				g.Lex[i].Pat = gr.Seq(flatten(g.Lex[i].Pat), gr.Lit(genRune(edge).Draw(t, "mandatory")))
			}
		}
		// string literals of the syntax part
		nLit := rapid.IntRange(0, o.MaxLits).Draw(t, "nLit")
		var lits []string
		if nLit > 0 {
			m, err := lexnfa.New(g)
			if err != nil {
				t.Fatalf("generator bug: %v", err)
			}
			for i := 0; i < nLit; i++ {
				var s string
				if rapid.Bool().Draw(t, "litFromToken") {
					s = string(Lexeme(t, m, -1, 6))
				} else {
					s = rapid.StringOfN(rapid.SampledFrom([]rune{'a', 'b', 'c', ' ', 0xe9}), 1, 4, -1).Draw(t, "litFresh")
				}
				if okLiteral(s) && !contains(lits, s) {
					lits = append(lits, s)
				}
			}
		}
		useToks := rapid.Bool().Draw(t, "useToksInSyntax")
		if len(lits) > 0 || useToks {
			p := gr.Prod{Name: "S"}
			for _, l := range lits {
				q := 0
				if rapid.IntRange(0, 3).Draw(t, "rawQuote") == 0 {
					q = 1
				}
				p.Alts = append(p.Alts, gr.Alt_{Syms: []gr.Sym{{Kind: gr.SLit, Name: l, Quote: q}}})
			}
			if useToks {
				names := g.TokenNames()
				sub := rapid.SliceOfNDistinct(rapid.SampledFrom(names), 0, len(names), rapid.ID[string]).Draw(t, "synToks")
				for _, n := range sub {
					p.Alts = append(p.Alts, gr.Alt_{Syms: []gr.Sym{{Kind: gr.STok, Name: n}}})
				}
			}
			if len(p.Alts) > 0 {
				g.Prods = []gr.Prod{p}
			}
		}
		if rapid.IntRange(0, 2).Draw(t, "spellChars") == 0 {
			// character literals in other spellings than the canonical one: octal,
			// \x, \u, \U, the character itself, \a \b \f \v
			var walk func(p *gr.Pat)
			walk = func(p *gr.Pat) {
				if p == nil {
					return
				}
				if p.Kind == gr.PLit || p.Kind == gr.PRange {
					if rapid.Bool().Draw(t, "respellLo") {
						p.FLo = rapid.IntRange(1, 7).Draw(t, "formLo")
					}
					if p.Kind == gr.PRange && rapid.Bool().Draw(t, "respellHi") {
						p.FHi = rapid.IntRange(1, 7).Draw(t, "formHi")
					}
				}
				for _, q := range p.Subs {
					walk(q)
				}
			}
			for i := range g.Lex {
				walk(g.Lex[i].Pat)
			}
		}
		return g
	})
}

// expandRefs returns p with every regular-definition reference replaced by a
// group holding (a copy of) the definition's body.
func expandRefs(p *gr.Pat, regs map[string]*gr.Pat, depth int) *gr.Pat {
	if p.Kind == gr.PRef && depth < 16 {
		if b, ok := regs[p.Ref]; ok {
			return gr.Grp(expandRefs(b, regs, depth+1))
		}
	}
	q := *p
	q.Subs = nil
	for _, s := range p.Subs {
		q.Subs = append(q.Subs, expandRefs(s, regs, depth))
	}
	return &q
}

func flatten(p *gr.Pat) *gr.Pat {
	if p.Kind == gr.PAlt {
		return gr.Grp(p)
	}
	return p
}

func contains(xs []string, s string) bool {
	for _, x := range xs {
		if x == s {
			return true
		}
	}
	return false
}

// okLiteral: the content can be carried unchanged by both quoting styles and is
// taken by gocc as the raw lexeme (no backslash, quotes, newline; valid UTF-8).
func okLiteral(s string) bool {
	if s == "" || !utf8.ValidString(s) {
		return false
	}
	for _, r := range s {
		switch r {
		case '\\', '"', '`', '\n', '\r', 0, utf8.RuneError:
			return false
		}
		if r < 0x20 && r != '\t' {
			return false
		}
	}
	return true
}

// Lexeme draws a text accepted by pattern pi (or by any non-ignored pattern if
// pi < 0) by walking the reference automaton; best effort within maxLen runes
// (the walk stops at the first accepting configuration reached after a random
// number of steps, or returns the prefix read so far).
func Lexeme(t *rapid.T, m *lexnfa.Model, pi int, maxLen int) []byte {
	cfg := m.Init()
	var out []byte
	accepts := func(c lexnfa.Config) bool {
		for _, a := range c.Acc {
			if pi < 0 || a == pi {
				return true
			}
		}
		return false
	}
	want := rapid.IntRange(1, maxLen).Draw(t, "lexLen")
	for i := 0; i < maxLen*3; i++ {
		if i >= want && accepts(cfg) {
			return out
		}
		rs := m.LiveRunes(cfg)
		if len(rs) == 0 {
			return out
		}
		r := rapid.SampledFrom(rs).Draw(t, "walkRune")
		n, _ := m.Step(cfg, r)
		if !n.Live() {
			return out
		}
		out = utf8.AppendRune(out, r)
		cfg = n
		if i >= want-1 && accepts(cfg) {
			return out
		}
	}
	return out
}

var hostileBytes = [][]byte{
	{0xff}, {0xc0, 0x80}, {0xe0, 0x80}, {0xed, 0xa0, 0x80}, {0xf4, 0x90, 0x80, 0x80}, {0x80}, {0xbf},
	{0xe4, 0xb8}, {0xf0, 0x9f, 0x98}, {0xc3}, {0xef, 0xbf, 0xbd}, {0xf8, 0x88, 0x80, 0x80, 0x80},
	{0xef, 0xbb, 0xbf}, {0xef, 0xbb}, {0xff, 0xfe},
}

// LexInput draws an input for the lexer described by m.
func LexInput(t *rapid.T, m *lexnfa.Model, maxBytes int) []byte {
	var out []byte
	mode := rapid.IntRange(0, 9).Draw(t, "inputMode")
	reps := m.Representatives()
	alpha := append(append([]rune{}, smallAlpha...), reps...)
	n := rapid.IntRange(0, 12).Draw(t, "pieces")
	if rapid.IntRange(0, 15).Draw(t, "leadingBOM") == 0 {
		out = append(out, 0xef, 0xbb, 0xbf) // a byte order mark at the very start
	}
	for i := 0; i < n && len(out) < maxBytes; i++ {
		var k int
		switch {
		case mode <= 4: // structured
			k = rapid.IntRange(0, 9).Draw(t, "piece")
		case mode <= 7: // random over alphabet
			k = 7
		default: // bytes
			k = rapid.IntRange(7, 9).Draw(t, "pieceB")
		}
		switch {
		case k <= 3: // a lexeme of some pattern
			pi := rapid.IntRange(0, len(m.Patterns)-1).Draw(t, "pat")
			out = append(out, Lexeme(t, m, pi, 6)...)
		case k == 4: // near miss: lexeme with last rune dropped
			pi := rapid.IntRange(0, len(m.Patterns)-1).Draw(t, "patNM")
			l := Lexeme(t, m, pi, 6)
			if len(l) > 0 {
				_, w := utf8.DecodeLastRune(l)
				l = l[:len(l)-w]
			}
			out = append(out, l...)
		case k == 5: // near miss: lexeme with last rune replaced
			pi := rapid.IntRange(0, len(m.Patterns)-1).Draw(t, "patNR")
			l := Lexeme(t, m, pi, 6)
			if len(l) > 0 {
				_, w := utf8.DecodeLastRune(l)
				l = l[:len(l)-w]
			}
			out = append(out, l...)
			out = utf8.AppendRune(out, rapid.SampledFrom(alpha).Draw(t, "repl"))
		case k == 6: // layout
			out = append(out, rapid.SampledFrom([]string{"\n", "\r\n", "\t", " ", "\r", "\n\n", "\t\t"}).Draw(t, "layout")...)
		case k == 7: // runes over the alphabet
			rs := rapid.SliceOfN(rapid.SampledFrom(alpha), 1, 5).Draw(t, "runes")
			for _, r := range rs {
				out = utf8.AppendRune(out, r)
			}
		case k == 8: // ill-formed UTF-8
			out = append(out, rapid.SampledFrom(hostileBytes).Draw(t, "hostile")...)
		default: // arbitrary bytes
			out = append(out, rapid.SliceOfN(rapid.Byte(), 1, 4).Draw(t, "bytes")...)
		}
	}
	if len(out) > maxBytes {
		out = out[:maxBytes]
	}
	return out
}

// SourceFor draws a text meant to be lexed into the named terminals (best
// effort: maximal munch may decide otherwise): a lexeme of each, separated by
// a lexeme of an ignored pattern where the grammar has one. "INVALID" stands
// for a rune no pattern starts with. About one lexeme in six is drawn long.
func SourceFor(t *rapid.T, m *lexnfa.Model, names []string) []byte {
	byName := map[string]int{}
	ign := -1
	for i, p := range m.Patterns {
		if p.Ignored {
			if ign < 0 {
				ign = i
			}
			continue
		}
		if _, ok := byName[p.Name]; !ok {
			byName[p.Name] = i
		}
	}
	var out []byte
	for _, n := range names {
		pi, ok := byName[n]
		switch {
		case !ok:
			out = append(out, rapid.SampledFrom([]string{"\x00", "\x7f", "☃", "\xff"}).Draw(t, "invalidRune")...)
		case rapid.IntRange(0, 5).Draw(t, "longLexeme") == 0:
			out = append(out, Lexeme(t, m, pi, 48)...)
		default:
			out = append(out, Lexeme(t, m, pi, 5)...)
		}
		if ign >= 0 {
			out = append(out, Lexeme(t, m, ign, 2)...)
		} else if rapid.Bool().Draw(t, "spaceAnyway") {
			out = append(out, ' ')
		}
	}
	return out
}

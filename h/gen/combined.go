package gen

import (
	"pgregory.net/rapid"
	"verif.local/h/gr"
)

// Combined generates a grammar with both a lexical and a syntax part: the
// lexical part is a LexGrammar (without syntax-part literals of its own), the
// syntax part is a SynGrammar over the named tokens plus string literals.
func Combined(lo LexOpts, so SynOpts) *rapid.Generator[*gr.Grammar] {
	return rapid.Custom(func(t *rapid.T) *gr.Grammar {
		lo.MaxLits = 0
		lg := LexGrammar(lo).Draw(t, "lexPart")
		lg.Prods = nil
		var terms []gr.Sym
		for _, n := range lg.TokenNames() {
			terms = append(terms, gr.Sym{Kind: gr.STok, Name: n})
		}
		nLit := rapid.IntRange(0, 3).Draw(t, "nSynLits")
		lits := rapid.SliceOfNDistinct(rapid.SampledFrom(litNames), nLit, nLit, rapid.ID[string]).Draw(t, "synLits")
		for _, l := range lits {
			q := 0
			if rapid.IntRange(0, 3).Draw(t, "rawQ") == 0 {
				q = 1
			}
			terms = append(terms, gr.Sym{Kind: gr.SLit, Name: l, Quote: q})
		}
		so.Terms = terms
		sg := SynGrammar(so).Draw(t, "synPart")
		sg.Lex = lg.Lex
		return sg
	})
}

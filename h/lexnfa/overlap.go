package lexnfa

import (
	"sort"
	"strconv"
	"strings"
	"unicode/utf8"
)

// The class "regdef-overlap" (known finding F4): gocc shares the items of a
// regular definition between all use sites that are active in one lexer state,
// so it is only macro-equivalent while no two *differently aged* instances of
// the same definition are active at once, and it never matches the empty
// instance of a nullable definition. The predicate below is evaluated on the
// reference automaton alone.

type thr struct {
	s     int
	fresh uint64 // bit i: frame i of states[s].frames was entered at the current offset
}

func (m *Model) closureFresh(seeds []thr) (leaves []thr) {
	seen := map[thr]bool{}
	stack := append([]thr{}, seeds...)
	for len(stack) > 0 {
		t := stack[len(stack)-1]
		stack = stack[:len(stack)-1]
		if seen[t] {
			continue
		}
		seen[t] = true
		st := &m.states[t.s]
		if st.leaf != lkNone {
			leaves = append(leaves, t)
			continue
		}
		for _, e := range st.eps {
			n := len(m.states[e.to].frames)
			f := t.fresh
			if n < 64 {
				f &= (uint64(1) << uint(n)) - 1
			}
			if e.enter >= 0 {
				f |= uint64(1) << uint(n-1)
			}
			stack = append(stack, thr{e.to, f})
		}
	}
	sort.Slice(leaves, func(i, j int) bool {
		if leaves[i].s != leaves[j].s {
			return leaves[i].s < leaves[j].s
		}
		return leaves[i].fresh < leaves[j].fresh
	})
	return
}

func keyOf(ts []thr) string {
	var b strings.Builder
	for _, t := range ts {
		b.WriteString(strconv.Itoa(t.s))
		b.WriteByte('/')
		b.WriteString(strconv.FormatUint(t.fresh, 16))
		b.WriteByte(' ')
	}
	return b.String()
}

func (m *Model) overlapping(ts []thr) bool {
	// per regdef: seen fresh frame, seen old frame
	fresh := map[int]bool{}
	old := map[int]bool{}
	for _, t := range ts {
		for i, inst := range m.states[t.s].frames {
			r := m.instReg[inst]
			if t.fresh&(uint64(1)<<uint(i)) != 0 {
				fresh[r] = true
			} else {
				old[r] = true
			}
		}
	}
	for r := range fresh {
		if old[r] {
			return true
		}
	}
	return false
}

// OverlapClass reports whether the grammar is in class regdef-overlap.
// tooLarge is set when the exploration budget was exhausted (the grammar is
// then treated as inside the class, i.e. excluded).
func (m *Model) OverlapClass(budget int) (in bool, tooLarge bool, why string) {
	used := map[int]bool{}
	for _, r := range m.instReg {
		used[r] = true
	}
	for r := range used {
		if m.Nullable[r] {
			return true, false, "nullable regdef " + m.regNames[r]
		}
	}
	if len(m.instReg) == 0 {
		return false, false, ""
	}
	for i := range m.states {
		if len(m.states[i].frames) >= 64 {
			return true, true, "frames too deep"
		}
	}
	reps := m.Representatives()
	// a rune outside every explicit class, for '.'
	reps = append(reps, otherRune(reps))
	var seeds []thr
	for _, p := range m.Patterns {
		seeds = append(seeds, thr{p.start, 0})
	}
	init := m.closureFresh(seeds)
	seen := map[string]bool{keyOf(init): true}
	queue := [][]thr{init}
	for len(queue) > 0 {
		cur := queue[0]
		queue = queue[1:]
		if m.overlapping(cur) {
			return true, false, "fresh and old instance of one regdef active together"
		}
		for _, c := range reps {
			var exp, dots []thr
			for _, t := range cur {
				st := &m.states[t.s]
				switch st.leaf {
				case lkLit:
					if st.lo <= c && c <= st.hi {
						exp = append(exp, thr{st.to, 0})
					}
				case lkDot:
					dots = append(dots, thr{st.to, 0})
				}
			}
			if len(exp) == 0 {
				exp = dots
			}
			if len(exp) == 0 {
				continue
			}
			// the lexer restarts on ignore, and a token may be followed by a new
			// scan; both restart from init, which is already explored.
			nx := m.closureFresh(exp)
			if len(nx) == 0 {
				continue
			}
			k := keyOf(nx)
			if !seen[k] {
				seen[k] = true
				if len(seen) > budget {
					return true, true, "exploration budget"
				}
				queue = append(queue, nx)
			}
		}
	}
	return false, false, ""
}

func otherRune(reps []rune) rune {
	have := map[rune]bool{}
	for _, r := range reps {
		have[r] = true
	}
	for _, r := range []rune{'~', '#', 0x2603, 0x1f600} {
		if !have[r] {
			return r
		}
	}
	for r := rune(0x3000); r < utf8.MaxRune; r++ {
		if !have[r] {
			return r
		}
	}
	return '~'
}

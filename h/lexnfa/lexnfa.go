// Package lexnfa is the reference lexer: regular definitions are macro-expanded
// (every use site gets a private copy) into one Thompson NFA which is simulated
// thread-set-wise. No DFA is built and nothing is shared between use sites, so
// the algorithm has nothing in common with gocc's dotted-item subset
// construction.
package lexnfa

import (
	"fmt"
	"sort"
	"unicode/utf8"

	"verif.local/h/gr"
)

type leafKind uint8

const (
	lkNone leafKind = iota
	lkLit           // includes ranges
	lkDot
)

type state struct {
	// exactly one of: a leaf edge, or epsilon edges (possibly none: final)
	leaf   leafKind
	lo, hi rune
	to     int   // target of the leaf edge
	eps    []eps // epsilon edges
	frames []int // enclosing regdef instances, outermost first
}

type eps struct {
	to    int
	enter int // instance id entered by this edge, or -1
}

// Pattern describes one top-level pattern (token, ignored token, literal).
type Pattern struct {
	Name    string
	Ignored bool
	Literal bool // string literal of the syntax part
	Decl    int  // declaration index among the lexical productions
	start   int
	final   int
}

type Model struct {
	Patterns []Pattern
	states   []state
	finalOf  map[int]int // final state -> pattern index
	instReg  []int       // instance id -> regdef index
	regNames []string
	Nullable []bool // per regdef
	init     []int  // initial thread set (sorted leaf states)
	initAcc  []int  // patterns accepting the empty string
}

// New builds the model. Literal patterns (string literals of the syntax part)
// are appended after the named ones.
func New(g *gr.Grammar) (*Model, error) {
	m := &Model{finalOf: map[int]int{}}
	regs := map[string]*gr.Pat{}
	regIdx := map[string]int{}
	for _, d := range g.Lex {
		if d.Kind == gr.DReg {
			regIdx[d.Name] = len(m.regNames)
			m.regNames = append(m.regNames, d.Name)
			regs[d.Name] = d.Pat
		}
	}
	m.Nullable = make([]bool, len(m.regNames))
	for n, i := range regIdx {
		nl, err := nullable(regs[n], regs, 0)
		if err != nil {
			return nil, err
		}
		m.Nullable[i] = nl
	}
	b := &builder{m: m, regs: regs, regIdx: regIdx}
	for i, d := range g.Lex {
		if d.Kind == gr.DReg {
			continue
		}
		s, f := b.newState(nil), b.newState(nil)
		if err := b.build(d.Pat, s, f, nil, 0); err != nil {
			return nil, err
		}
		m.finalOf[f] = len(m.Patterns)
		m.Patterns = append(m.Patterns, Pattern{Name: d.Name, Ignored: d.Kind == gr.DIgn, Decl: i, start: s, final: f})
	}
	for i, lit := range g.StringLits() {
		s, f := b.newState(nil), b.newState(nil)
		if err := b.build(gr.StrPat(lit), s, f, nil, 0); err != nil {
			return nil, err
		}
		m.finalOf[f] = len(m.Patterns)
		m.Patterns = append(m.Patterns, Pattern{Name: lit, Literal: true, Decl: len(g.Lex) + i, start: s, final: f})
	}
	var seeds []int
	for _, p := range m.Patterns {
		seeds = append(seeds, p.start)
	}
	m.init, m.initAcc = m.closure(seeds)
	return m, nil
}

func nullable(p *gr.Pat, regs map[string]*gr.Pat, depth int) (bool, error) {
	if depth > 64 {
		return false, fmt.Errorf("recursive regular definition")
	}
	switch p.Kind {
	case gr.PLit, gr.PRange, gr.PDot:
		return false, nil
	case gr.PRef:
		r, ok := regs[p.Ref]
		if !ok {
			return false, fmt.Errorf("undefined regdef %s", p.Ref)
		}
		return nullable(r, regs, depth+1)
	case gr.POpt, gr.PRep:
		return true, nil
	case gr.PGrp:
		return nullable(p.Subs[0], regs, depth)
	case gr.PSeq:
		for _, s := range p.Subs {
			n, err := nullable(s, regs, depth)
			if err != nil || !n {
				return false, err
			}
		}
		return true, nil
	case gr.PAlt:
		for _, s := range p.Subs {
			n, err := nullable(s, regs, depth)
			if err != nil {
				return false, err
			}
			if n {
				return true, nil
			}
		}
		return false, nil
	}
	return false, fmt.Errorf("bad pattern")
}

// PatNullable reports whether pattern p (with regdefs of g expanded) matches
// the empty string.
func PatNullable(g *gr.Grammar, p *gr.Pat) (bool, error) {
	regs := map[string]*gr.Pat{}
	for _, d := range g.Lex {
		if d.Kind == gr.DReg {
			regs[d.Name] = d.Pat
		}
	}
	return nullable(p, regs, 0)
}

type builder struct {
	m      *Model
	regs   map[string]*gr.Pat
	regIdx map[string]int
}

func (b *builder) newState(frames []int) int {
	b.m.states = append(b.m.states, state{frames: frames})
	return len(b.m.states) - 1
}

func (b *builder) eps(from, to, enter int) {
	b.m.states[from].eps = append(b.m.states[from].eps, eps{to: to, enter: enter})
}

const maxStates = 20000

func (b *builder) build(p *gr.Pat, s, f int, frames []int, depth int) error {
	if depth > 64 {
		return fmt.Errorf("recursive regular definition")
	}
	if len(b.m.states) > maxStates {
		return fmt.Errorf("expanded pattern too large")
	}
	switch p.Kind {
	case gr.PLit:
		st := &b.m.states[s]
		st.leaf, st.lo, st.hi, st.to = lkLit, p.Lo, p.Lo, f
	case gr.PRange:
		st := &b.m.states[s]
		st.leaf, st.lo, st.hi, st.to = lkLit, p.Lo, p.Hi, f
	case gr.PDot:
		st := &b.m.states[s]
		st.leaf, st.to = lkDot, f
	case gr.PGrp:
		s1, f1 := b.newState(frames), b.newState(frames)
		b.eps(s, s1, -1)
		b.eps(f1, f, -1)
		return b.build(p.Subs[0], s1, f1, frames, depth)
	case gr.POpt:
		s1, f1 := b.newState(frames), b.newState(frames)
		b.eps(s, s1, -1)
		b.eps(f1, f, -1)
		b.eps(s, f, -1)
		return b.build(p.Subs[0], s1, f1, frames, depth)
	case gr.PRep:
		s1, f1 := b.newState(frames), b.newState(frames)
		b.eps(s, s1, -1)
		b.eps(f1, s1, -1)
		b.eps(f1, f, -1)
		b.eps(s, f, -1)
		return b.build(p.Subs[0], s1, f1, frames, depth)
	case gr.PSeq:
		cur := s
		for i, sub := range p.Subs {
			s1 := b.newState(frames)
			b.eps(cur, s1, -1)
			nxt := f
			if i < len(p.Subs)-1 {
				nxt = b.newState(frames)
			}
			if err := b.build(sub, s1, nxt, frames, depth); err != nil {
				return err
			}
			cur = nxt
		}
	case gr.PAlt:
		for _, sub := range p.Subs {
			s1, f1 := b.newState(frames), b.newState(frames)
			b.eps(s, s1, -1)
			b.eps(f1, f, -1)
			if err := b.build(sub, s1, f1, frames, depth); err != nil {
				return err
			}
		}
	case gr.PRef:
		r, ok := b.regs[p.Ref]
		if !ok {
			return fmt.Errorf("undefined regdef %s", p.Ref)
		}
		inst := len(b.m.instReg)
		b.m.instReg = append(b.m.instReg, b.regIdx[p.Ref])
		fr := append(append([]int{}, frames...), inst)
		s1, f1 := b.newState(fr), b.newState(fr)
		b.eps(s, s1, inst)
		b.eps(f1, f, -1)
		return b.build(r, s1, f1, fr, depth+1)
	default:
		return fmt.Errorf("bad pattern kind %d", p.Kind)
	}
	return nil
}

// closure returns the leaf states reachable by epsilon moves from seeds and
// the patterns whose final state is reachable. Both sorted.
func (m *Model) closure(seeds []int) (leaves []int, acc []int) {
	seen := map[int]bool{}
	stack := append([]int{}, seeds...)
	for len(stack) > 0 {
		s := stack[len(stack)-1]
		stack = stack[:len(stack)-1]
		if seen[s] {
			continue
		}
		seen[s] = true
		st := &m.states[s]
		if st.leaf != lkNone {
			leaves = append(leaves, s)
			continue
		}
		if pi, ok := m.finalOf[s]; ok {
			acc = append(acc, pi)
		}
		for _, e := range st.eps {
			stack = append(stack, e.to)
		}
	}
	sort.Ints(leaves)
	sort.Ints(acc)
	return
}

// Config is a set of threads (leaf states) and the patterns accepting now.
type Config struct {
	Leaves []int
	Acc    []int
}

func (m *Model) Init() Config { return Config{m.init, m.initAcc} }

// StepInfo says how a step was decided.
type StepInfo struct {
	DotCompeted bool // a '.' thread was pending while an explicit class matched
	UsedDot     bool // the step was taken by '.' threads
}

// Step advances the configuration on rune c. The '.' rule: if any pending leaf
// is a literal or range containing c, exactly those threads advance; otherwise
// the '.' threads advance.
func (m *Model) Step(cfg Config, c rune) (Config, StepInfo) {
	var exp, dots []int
	for _, s := range cfg.Leaves {
		st := &m.states[s]
		switch st.leaf {
		case lkLit:
			if st.lo <= c && c <= st.hi {
				exp = append(exp, st.to)
			}
		case lkDot:
			dots = append(dots, st.to)
		}
	}
	var info StepInfo
	seeds := exp
	if len(exp) == 0 {
		seeds = dots
		info.UsedDot = len(dots) > 0
	} else if len(dots) > 0 {
		info.DotCompeted = true
	}
	if len(seeds) == 0 {
		return Config{}, info
	}
	l, a := m.closure(seeds)
	return Config{l, a}, info
}

func (c Config) Live() bool { return len(c.Leaves) > 0 || len(c.Acc) > 0 }

// Verdict returns the index of the winning accepting pattern or -1:
// a string literal beats every named pattern, otherwise earliest declaration.
func (m *Model) Verdict(cfg Config) int {
	best := -1
	for _, pi := range cfg.Acc {
		p := &m.Patterns[pi]
		if best == -1 {
			best = pi
			continue
		}
		bp := &m.Patterns[best]
		switch {
		case p.Literal && !bp.Literal:
			best = pi
		case !p.Literal && bp.Literal:
		case p.Decl < bp.Decl:
			best = pi
		}
	}
	return best
}

// Token kinds of the reference scan.
const (
	KTok = iota
	KInvalid
	KEOF
	KIgnored // only in segmentations
)

type Tok struct {
	Kind   int
	Name   string // pattern name for KTok/KIgnored, "INVALID", "␚"
	Off    int
	End    int
	Line   int
	Col    int
	Traits Traits
}

// Traits records which interesting situations one Scan call went through.
type Traits struct {
	MultiAccept    bool // two patterns accepted the same text
	LitShadow      bool // a literal and a named pattern accepted the same text
	DotCompeted    bool
	UsedDot        bool
	IgnoredThenBad bool // an ignored lexeme was directly followed by a dead rune
	IllFormed      bool // the scan consumed an ill-formed UTF-8 byte
	Ignored        int  // ignored lexemes skipped by this call
}

// Scan performs one Scan call of the lexer described by C01 starting at pos.
// It returns the token, the new position and the ignored segments it skipped.
func (m *Model) Scan(src []byte, pos int) (Tok, int, []Tok) {
	var skipped []Tok
	var tr Traits
	if pos >= len(src) {
		l, c := Pos(src, len(src))
		return Tok{Kind: KEOF, Name: "␚", Off: len(src), End: len(src), Line: l, Col: c}, len(src), nil
	}
	start := pos
	p := pos
	cfg := m.Init()
	justIgnored := false
	mk := func(kind int, name string, off, end int) Tok {
		l, c := Pos(src, off)
		return Tok{Kind: kind, Name: name, Off: off, End: end, Line: l, Col: c, Traits: tr}
	}
	for {
		if p >= len(src) {
			// input exhausted while the text read is still a live prefix
			if v := m.Verdict(cfg); v >= 0 && p > start {
				return mk(KTok, m.Patterns[v].Name, start, p), p, skipped
			}
			if p == start {
				return mk(KEOF, "␚", p, p), p, skipped
			}
			return mk(KInvalid, "INVALID", start, p), p, skipped
		}
		c, w := utf8.DecodeRune(src[p:])
		next, info := m.Step(cfg, c)
		if !next.Live() {
			if v := m.Verdict(cfg); v >= 0 && p > start {
				return mk(KTok, m.Patterns[v].Name, start, p), p, skipped
			}
			if justIgnored && p == start {
				tr.IgnoredThenBad = true
			}
			if c == utf8.RuneError && w == 1 {
				tr.IllFormed = true
			}
			return mk(KInvalid, "INVALID", start, p+w), p + w, skipped
		}
		justIgnored = false
		if c == utf8.RuneError && w == 1 {
			tr.IllFormed = true
		}
		tr.DotCompeted = tr.DotCompeted || info.DotCompeted
		tr.UsedDot = tr.UsedDot || info.UsedDot
		p += w
		cfg = next
		if len(cfg.Acc) > 1 {
			tr.MultiAccept = true
			lit, named := false, false
			for _, a := range cfg.Acc {
				if m.Patterns[a].Literal {
					lit = true
				} else {
					named = true
				}
			}
			if lit && named {
				tr.LitShadow = true
			}
		}
		if v := m.Verdict(cfg); v >= 0 && m.Patterns[v].Ignored {
			skipped = append(skipped, mk(KIgnored, m.Patterns[v].Name, start, p))
			tr.Ignored++
			start = p
			cfg = m.Init()
			justIgnored = true
		}
	}
}

// ScanAll returns the first n tokens the reference lexer yields and the full
// segmentation (tokens, INVALID and ignored lexemes) up to the first EOF.
func (m *Model) ScanAll(src []byte, n int) (toks []Tok, segs []Tok) {
	pos := 0
	eof := false
	for i := 0; i < n; i++ {
		t, np, sk := m.Scan(src, pos)
		toks = append(toks, t)
		if !eof {
			segs = append(segs, sk...)
			if t.Kind != KEOF {
				segs = append(segs, t)
			} else {
				eof = true
			}
		}
		pos = np
	}
	return
}

// Pos is the position function of C08: line = 1 + number of '\n' before off;
// column = 1 + advance since the last '\r' or '\n' before off, four per tab and
// one per other character (characters decoded as UTF-8, an ill-formed byte
// counting as one character).
func Pos(src []byte, off int) (line, col int) {
	line = 1
	ls := 0
	for i := 0; i < off; i++ {
		if src[i] == '\n' {
			line++
			ls = i + 1
		} else if src[i] == '\r' {
			ls = i + 1
		}
	}
	col = 1
	for i := ls; i < off; {
		c, w := utf8.DecodeRune(src[i:off])
		if c == '\t' {
			col += 4
		} else {
			col++
		}
		i += w
	}
	return
}

// ---------------------------------------------------------------------------
// Alphabet classes and exploration (used by generators and the overlap class)

// Boundaries returns the sorted distinct rune boundaries of all leaves: every
// maximal interval between consecutive boundaries is treated uniformly by every
// leaf.
func (m *Model) Representatives() []rune {
	bs := map[rune]bool{}
	for i := range m.states {
		st := &m.states[i]
		if st.leaf == lkLit {
			bs[st.lo] = true
			if st.hi < utf8.MaxRune {
				bs[st.hi+1] = true
			}
		}
	}
	var b []rune
	for r := range bs {
		b = append(b, r)
	}
	sort.Slice(b, func(i, j int) bool { return b[i] < b[j] })
	// one representative per interval [b[i], b[i+1]) plus one below b[0]
	var reps []rune
	cand := func(lo, hi rune) { // pick a valid scalar in [lo,hi]
		for r := lo; r <= hi && r <= lo+0x800; r++ {
			if utf8.ValidRune(r) && r != utf8.RuneError {
				reps = append(reps, r)
				return
			}
		}
		if lo <= utf8.RuneError && utf8.RuneError <= hi {
			reps = append(reps, utf8.RuneError)
		}
	}
	if len(b) == 0 {
		return []rune{'a'}
	}
	if b[0] > 0 {
		cand(0, b[0]-1)
	}
	for i := range b {
		hi := rune(utf8.MaxRune)
		if i+1 < len(b) {
			hi = b[i+1] - 1
		}
		cand(b[i], hi)
	}
	return reps
}

// LeafRunes returns, for the pending leaves of cfg, runes that move at least
// one thread (one representative per distinct leaf interval, plus a rune for
// '.' if a dot thread is pending and some rune exists outside all classes).
func (m *Model) LiveRunes(cfg Config) []rune {
	var out []rune
	seen := map[rune]bool{}
	add := func(r rune) {
		if !seen[r] && utf8.ValidRune(r) {
			seen[r] = true
			out = append(out, r)
		}
	}
	dot := false
	for _, s := range cfg.Leaves {
		st := &m.states[s]
		switch st.leaf {
		case lkLit:
			add(st.lo)
			if st.hi != st.lo {
				add(st.hi)
				mid := st.lo + (st.hi-st.lo)/2
				add(mid)
			}
		case lkDot:
			dot = true
		}
	}
	if dot {
		for _, r := range []rune{'z', '#', 0x00e9, 0x4e16, 0x1f600, '\n', 0} {
			n, _ := m.Step(cfg, r)
			if n.Live() {
				add(r)
			}
		}
	}
	return out
}

func (m *Model) NumStates() int { return len(m.states) }

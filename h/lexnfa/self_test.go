package lexnfa_test

import (
	"fmt"
	"regexp"
	"strings"
	"testing"
	"unicode/utf8"

	"pgregory.net/rapid"
	"verif.local/h/gen"
	"verif.local/h/gr"
	"verif.local/h/lexnfa"
)

// toRegexp renders a '.'-free pattern (regdefs expanded) as a Go regexp.
func toRegexp(g *gr.Grammar, p *gr.Pat) string {
	esc := func(r rune) string { return fmt.Sprintf(`\x{%x}`, r) }
	switch p.Kind {
	case gr.PLit:
		return esc(p.Lo)
	case gr.PRange:
		return "[" + esc(p.Lo) + "-" + esc(p.Hi) + "]"
	case gr.PRef:
		return "(?:" + toRegexp(g, g.RegDef(p.Ref).Pat) + ")"
	case gr.POpt:
		return "(?:" + toRegexp(g, p.Subs[0]) + ")?"
	case gr.PRep:
		return "(?:" + toRegexp(g, p.Subs[0]) + ")*"
	case gr.PGrp:
		return "(?:" + toRegexp(g, p.Subs[0]) + ")"
	case gr.PSeq:
		var b strings.Builder
		for _, s := range p.Subs {
			b.WriteString("(?:" + toRegexp(g, s) + ")")
		}
		return b.String()
	case gr.PAlt:
		var parts []string
		for _, s := range p.Subs {
			parts = append(parts, "(?:"+toRegexp(g, s)+")")
		}
		return strings.Join(parts, "|")
	}
	panic("dot")
}

// On the '.'-free fragment the reference automaton's "the text read is a
// lexeme of pattern k" agrees with Go's regexp engine, for every pattern.
func TestNFAAgainstRegexp(t *testing.T) {
	o := gen.DefaultLexOpts()
	o.NoDot = true
	o.MaxLits = 0
	rapid.Check(t, func(rt *rapid.T) {
		g := gen.LexGrammar(o).Draw(rt, "g")
		m, err := lexnfa.New(g)
		if err != nil {
			rt.Fatalf("%v", err)
		}
		var res []*regexp.Regexp
		for _, p := range m.Patterns {
			var pat *gr.Pat
			for _, d := range g.Lex {
				if d.Name == p.Name {
					pat = d.Pat
				}
			}
			re, err := regexp.Compile(`^(?s:` + toRegexp(g, pat) + `)$`)
			if err != nil {
				rt.Fatalf("regexp: %v", err)
			}
			res = append(res, re)
		}
		for k := 0; k < 30; k++ {
			src := gen.LexInput(rt, m, 12)
			if !utf8.Valid(src) {
				continue
			}
			cfg := m.Init()
			alive := true
			for _, r := range string(src) {
				cfg, _ = m.Step(cfg, r)
				if !cfg.Live() {
					alive = false
					break
				}
			}
			for pi, re := range res {
				want := re.Match(src) && len(src) > 0
				got := false
				if alive && len(src) > 0 {
					for _, a := range cfg.Acc {
						if a == pi {
							got = true
						}
					}
				}
				if got != want {
					rt.Fatalf("grammar:\n%s\ntext %q, pattern %s: regexp says %v, reference automaton says %v", g.Source(), src, m.Patterns[pi].Name, want, got)
				}
			}
		}
	})
}

func TestPosAgainstNaive(t *testing.T) {
	rapid.Check(t, func(rt *rapid.T) {
		src := []byte(rapid.StringOfN(rapid.SampledFrom([]rune{'a', '\n', '\r', '\t', 'é', '世', ' '}), 0, 30, -1).Draw(rt, "src"))
		if rapid.Bool().Draw(rt, "illformed") {
			src = append(src, 0xff, 'x', 0xc3)
		}
		off := rapid.IntRange(0, len(src)).Draw(rt, "off")
		for off < len(src) && !utf8.RuneStart(src[off]) {
			off++
		}
		line, col := 1, 1
		for i := 0; i < off; {
			r, w := utf8.DecodeRune(src[i:])
			switch r {
			case '\n':
				line++
				col = 1
			case '\r':
				col = 1
			case '\t':
				col += 4
			default:
				col++
			}
			i += w
		}
		l, c := lexnfa.Pos(src, off)
		if l != line || c != col {
			rt.Fatalf("src %q off %d: Pos says %d:%d, naive loop says %d:%d", src, off, l, c, line, col)
		}
	})
}

// The hand-written examples of the known finding F4 are inside class
// regdef-overlap; plain character-class regdefs are outside.
func TestOverlapClassExamples(t *testing.T) {
	in := []string{
		"_x : 'a' 'b' ; t : 'a' _x 'c' | _x 'd' ;",
		"_x : 'a' [ 'b' ] ; t : _x _x 'c' ;",
		"_o : [ 'a' ] ; t : _o 'x' ;",
	}
	out := []string{
		"_l : 'a'-'z' ; _d : '0'-'9' ; id : _l { _l | _d } ; n : _d { _d } ;",
		"_x : 'a' 'b' ; t : _x 'c' ; u : 'q' _x ;",
	}
	for _, s := range in {
		m, err := lexnfa.New(gr.MustParse(s))
		if err != nil {
			t.Fatal(err)
		}
		if got, _, _ := m.OverlapClass(3000); !got {
			t.Errorf("%s: expected inside class regdef-overlap", s)
		}
	}
	for _, s := range out {
		m, err := lexnfa.New(gr.MustParse(s))
		if err != nil {
			t.Fatal(err)
		}
		if got, _, why := m.OverlapClass(3000); got {
			t.Errorf("%s: expected outside class regdef-overlap (%s)", s, why)
		}
	}
}

package spec

import (
	"os"
	"testing"
)

func TestSpecReads(t *testing.T) {
	repo := os.Getenv("VERIF_REPO")
	if repo == "" {
		repo = "/repo"
	}
	s, err := Load(repo)
	if err != nil {
		t.Fatal(err)
	}
	if len(s.C.Prods) != 40 {
		t.Errorf("expected 39 productions + augmentation, got %d", len(s.C.Prods))
	}
	if len(s.C.NTs) != 16 {
		t.Logf("nonterminals: %v", s.C.NTs)
	}
	t.Logf("terminals: %q", s.C.Terms)
	ok := []string{"tokId", ":", "char_lit", ";", "prodId", ":", "tokId", "|", "prodId", "string_lit", "g_sdt_lit", ";"}
	if !s.Accepts(ok) {
		t.Errorf("well-formed class sequence rejected")
	}
	bad := []string{"prodId", ":", ")", "tokId", ";"}
	if s.Accepts(bad) {
		t.Errorf("ill-formed class sequence accepted")
	}
}

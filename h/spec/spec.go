// Package spec reads gocc's documented grammar (spec/gocc2.ebnf) with the
// harness's own reader and turns it into a CFG over front-end token classes.
package spec

import (
	"fmt"
	"os"
	"path/filepath"
	"strings"
	"unicode"
	"unicode/utf8"

	"verif.local/h/cfg"
	"verif.local/h/gr"
)

type Spec struct {
	G *gr.Grammar
	C *cfg.CFG
	E *cfg.Earley
}

// Load reads <repo>/spec/gocc2.ebnf.
func Load(repo string) (*Spec, error) {
	b, err := os.ReadFile(filepath.Join(repo, "spec", "gocc2.ebnf"))
	if err != nil {
		return nil, err
	}
	g, err := gr.Parse(string(b))
	if err != nil {
		return nil, fmt.Errorf("spec/gocc2.ebnf: %v", err)
	}
	// in the spec "error" and "empty" are ordinary literal terminals
	for i := range g.Prods {
		for j := range g.Prods[i].Alts {
			g.Prods[i].Alts[j].Action = ""
		}
	}
	c, err := cfg.FromGrammar(g)
	if err != nil {
		return nil, err
	}
	return &Spec{G: g, C: c, E: cfg.NewEarley(c)}, nil
}

// ClassOfText classifies a source token the way the documented lexical rules
// do (first character decides); "ILLEGAL" for characters that start no token.
func ClassOfText(t string) string {
	switch t {
	case ":", ";", "|", ".", "-", "[", "]", "{", "}", "(", ")":
		return t
	}
	if strings.HasPrefix(t, "<<") {
		return "g_sdt_lit"
	}
	r, _ := utf8.DecodeRuneInString(t)
	switch {
	case r == '\'':
		if validCharLit(t) {
			return "char_lit"
		}
		return "ILLEGAL" // not a character literal of the documented lexical syntax
	case r == '"' || r == '`':
		return "string_lit"
	case r == '!':
		return "ignoredTokId"
	case r == '_':
		return "regDefId"
	case unicode.IsUpper(r):
		return "prodId"
	case unicode.IsLetter(r):
		return "tokId"
	}
	return "ILLEGAL"
}

// TermIDs maps token classes to terminal ids of the spec CFG (-1: no terminal).
func (s *Spec) TermIDs(classes []string) []int {
	out := make([]int, len(classes))
	for i, c := range classes {
		if s.C.HasTerm(c) {
			out[i] = s.C.Term(c)
		} else {
			out[i] = -1
		}
	}
	return out
}

// Accepts reports whether the class sequence is a sentence of the spec grammar.
func (s *Spec) Accepts(classes []string) bool { return s.E.Accepts(s.TermIDs(classes)) }

// validCharLit: "'" ( unicode_char | \uhhhh | \Uhhhhhhhh | escaped_char | \ooo | \xhh ) "'"
// as documented at the end of spec/gocc2.ebnf.
func validCharLit(t string) bool {
	if len(t) < 3 || t[0] != '\'' || t[len(t)-1] != '\'' {
		return false
	}
	b := t[1 : len(t)-1]
	if b[0] != '\\' {
		r, w := utf8.DecodeRuneInString(b)
		return w == len(b) && !(r == utf8.RuneError && w == 1) && r != '\'' && r != '\n'
	}
	if len(b) < 2 {
		return false
	}
	isHex := func(s string) bool {
		for _, c := range s {
			if !(c >= '0' && c <= '9' || c >= 'a' && c <= 'f' || c >= 'A' && c <= 'F') {
				return false
			}
		}
		return true
	}
	switch b[1] {
	case 'a', 'b', 'f', 'n', 'r', 't', 'v', '\\', '\'', '"':
		return len(b) == 2
	case 'x':
		return len(b) == 4 && isHex(b[2:])
	case 'u':
		return len(b) == 6 && isHex(b[2:])
	case 'U':
		return len(b) == 10 && isHex(b[2:])
	}
	if len(b) != 4 {
		return false
	}
	for _, c := range b[1:] {
		if c < '0' || c > '7' {
			return false
		}
	}
	return true
}

package verifinproc

import (
	"encoding/json"
	"fmt"
	"os"
	"sort"
	"testing"

	"github.com/goccmack/gocc/internal/lexer/items"
	"pgregory.net/rapid"
	"verif.local/h/ev"
	"verif.local/h/ex"
)

// C18 — rune classes form an exact disjoint partition.

type iv struct{ Lo, Hi rune }

type C18Case struct {
	Ranges []iv `json:"ranges"`
}

// checkPartition validates the class list against the inserted intervals.
// Validity predicates, not one expected answer.
func checkPartition(in []iv, cls []items.CharRange) string {
	for i, c := range cls {
		if c.From > c.To {
			return fmt.Sprintf("class %d [%d,%d] is empty/inverted", i, c.From, c.To)
		}
		if i > 0 && cls[i-1].To >= c.From {
			return fmt.Sprintf("classes %d [%d,%d] and %d [%d,%d] are not sorted and disjoint", i-1, cls[i-1].From, cls[i-1].To, i, c.From, c.To)
		}
	}
	// union equality on the endpoint-compressed line
	pts := map[rune]bool{}
	for _, r := range in {
		pts[r.Lo] = true
		pts[r.Hi+1] = true
		pts[r.Lo-1] = true
		pts[r.Hi] = true
	}
	for _, c := range cls {
		pts[c.From] = true
		pts[c.To+1] = true
		pts[c.From-1] = true
		pts[c.To] = true
	}
	inIn := func(x rune) bool {
		for _, r := range in {
			if r.Lo <= x && x <= r.Hi {
				return true
			}
		}
		return false
	}
	inCls := func(x rune) int {
		n := 0
		for _, c := range cls {
			if c.From <= x && x <= c.To {
				n++
			}
		}
		return n
	}
	var ps []rune
	for p := range pts {
		ps = append(ps, p)
	}
	sort.Slice(ps, func(i, j int) bool { return ps[i] < ps[j] })
	for _, p := range ps {
		n := inCls(p)
		if n > 1 {
			return fmt.Sprintf("rune %d lies in %d classes", p, n)
		}
		if (n == 1) != inIn(p) {
			return fmt.Sprintf("rune %d: covered by the added ranges: %v, covered by the classes: %v", p, inIn(p), n == 1)
		}
	}
	// every added range is a union of whole classes
	for _, r := range in {
		for _, c := range cls {
			inside := r.Lo <= c.From && c.To <= r.Hi
			disjoint := c.To < r.Lo || r.Hi < c.From
			if !inside && !disjoint {
				return fmt.Sprintf("class [%d,%d] straddles an endpoint of the added range [%d,%d]", c.From, c.To, r.Lo, r.Hi)
			}
		}
	}
	return ""
}

// evalC18 adds the ranges one by one and validates after every insertion.
func evalC18(c C18Case, col *ev.Collector) string {
	s := items.NewDisjunctRangeSet()
	nontrivial := false
	for i, r := range c.Ranges {
		// classify the insertion against the current classes (reference side)
		over, splits := 0, 0
		for _, k := range s.List() {
			if !(k.To < r.Lo || r.Hi < k.From) {
				over++
				if k.From < r.Lo || r.Hi < k.To {
					splits++
				}
			}
		}
		func() {
			defer func() {
				if p := recover(); p != nil {
					panic(fmt.Sprintf("AddRange(%d,%d) panicked: %v", r.Lo, r.Hi, p))
				}
			}()
			s.AddRange(r.Lo, r.Hi)
		}()
		if m := checkPartition(c.Ranges[:i+1], s.List()); m != "" {
			return fmt.Sprintf("after adding %v: %s; classes now %v", c.Ranges[:i+1], m, s.List())
		}
		if over >= 2 || splits >= 1 {
			nontrivial = true
		}
		if col != nil {
			switch {
			case over == 0:
				col.Class("insert_disjoint")
			case over == 1 && splits == 0:
				col.Class("insert_covers_or_equals_one_class")
			case over == 1:
				col.Class("insert_splits_one_class")
			default:
				col.Class("insert_overlaps_several_classes")
			}
		}
	}
	if col != nil {
		col.Eval()
		if nontrivial {
			col.NonTrivial(ev.Hash(fmt.Sprint(c.Ranges)), func() any { return map[string]any{"ranges": fmt.Sprint(c.Ranges), "classes": fmt.Sprint(s.List())} })
		}
	}
	return ""
}

var edgePts = []rune{0, 1, 0x7e, 0x7f, 0x80, 0x7ff, 0x800, 0xd7ff, 0xe000, 0xfffd, 0xffff, 0x10000, 0x10fffe, 0x10ffff}

func genC18(t *rapid.T) C18Case {
	n := rapid.IntRange(1, 20).Draw(t, "n")
	var c C18Case
	dense := rapid.Bool().Draw(t, "dense")
	pt := func(label string) rune {
		if dense || rapid.IntRange(0, 2).Draw(t, "denseSel") > 0 {
			return rune(rapid.IntRange(0, 24).Draw(t, label))
		}
		base := rapid.SampledFrom(edgePts).Draw(t, label+"E")
		d := rune(rapid.IntRange(-2, 2).Draw(t, label+"D"))
		x := base + d
		if x < 0 {
			x = 0
		}
		if x > 0x10ffff {
			x = 0x10ffff
		}
		return x
	}
	for i := 0; i < n; i++ {
		a, b := pt("a"), pt("b")
		if a > b {
			a, b = b, a
		}
		if len(c.Ranges) > 0 && rapid.IntRange(0, 5).Draw(t, "dup") == 0 {
			// duplicate / adjacent / nested variant of an earlier range
			p := c.Ranges[rapid.IntRange(0, len(c.Ranges)-1).Draw(t, "prev")]
			switch rapid.IntRange(0, 3).Draw(t, "variant") {
			case 0:
				a, b = p.Lo, p.Hi
			case 1:
				a, b = p.Hi+1, p.Hi+1+rune(rapid.IntRange(0, 3).Draw(t, "adjLen"))
			case 2:
				if p.Lo > 0 {
					a, b = p.Lo-1, p.Hi
				}
			default:
				a, b = p.Lo, p.Lo
			}
			if b > 0x10ffff {
				b = 0x10ffff
			}
			if a > b {
				a = b
			}
		}
		c.Ranges = append(c.Ranges, iv{a, b})
	}
	return c
}

func TestC18(t *testing.T) {
	col := ev.New("C18")
	rec := &ev.Recorder{Dir: os.Getenv("VERIF_REPLAY_OUT"), Prop: "C18", Engine: "inproc", Seed: os.Getenv("VERIF_SEED")}
	defer func() {
		rec.Flush(col)
		if p := os.Getenv("VERIF_STATS"); p != "" {
			col.Write(p)
		}
	}()
	if rp := os.Getenv("VERIF_REPLAY"); rp != "" {
		var c C18Case
		var gcase struct {
			Kind    string `json:"kind"`
			Grammar string `json:"grammar"`
		}
		if _, err := ev.LoadReplay(rp, &gcase); err == nil && gcase.Grammar != "" {
			col.Eval()
			if m := checkStatesOf(gcase.Grammar); m != "" {
				t.Fatalf("replay fails: %s", m)
			}
			if gcase.Kind == "tables" {
				if env, err := ex.FromEnv("c18replay"); err == nil {
					if _, _, m, _, err := tablesOf(env, gcase.Grammar); err != nil {
						t.Fatalf("INFRA: %v", err)
					} else if m != "" {
						t.Fatalf("replay fails: grammar:\n%s\ngenerated transition table: %s", gcase.Grammar, m)
					}
				}
			}
			return
		}
		if _, err := ev.LoadReplay(rp, &c); err != nil {
			t.Fatalf("INFRA: %v", err)
		}
		if m := safeEvalC18(c, col); m != "" {
			t.Fatalf("replay fails: %s", m)
		}
		return
	}
	// (i) exhaustive: every sequence of <= K intervals over the universe 0..6
	if os.Getenv("VERIF_SHARD") == "0" || os.Getenv("VERIF_SHARD") == "" {
		var all []iv
		for lo := rune(0); lo <= 6; lo++ {
			for hi := lo; hi <= 6; hi++ {
				all = append(all, iv{lo, hi})
			}
		}
		depth := 3
		if os.Getenv("VERIF_TIER") == "thorough" {
			depth = 4
		}
		count := 0
		var rec2 func(prefix []iv)
		failed := ""
		rec2 = func(prefix []iv) {
			if failed != "" {
				return
			}
			if len(prefix) > 0 {
				count++
				if m := safeEvalC18(C18Case{Ranges: prefix}, nil); m != "" {
					failed = m
					cb, _ := json.Marshal(C18Case{Ranges: prefix})
					rec.Record(cb, m)
					return
				}
			}
			if len(prefix) == depth {
				return
			}
			for _, r := range all {
				rec2(append(append([]iv{}, prefix...), r))
			}
		}
		rec2(nil)
		col.EvalN(count)
		col.ClassN("exhaustive_sequences_over_0_6", count)
		col.Note(fmt.Sprintf("exhaustive: all %d sequences of <= %d intervals over the universe 0..6", count, depth))
		col.SetExhaustive(false)
		if failed != "" {
			t.Fatalf("%s", failed)
		}
	}
	// (ii) rapid
	rapid.Check(t, func(rt *rapid.T) {
		c := genC18(rt)
		if m := safeEvalC18(c, col); m != "" {
			cb, _ := json.Marshal(c)
			rec.Record(cb, m)
			rt.Fatalf("%s", m)
		}
	})
}

func safeEvalC18(c C18Case, col *ev.Collector) (msg string) {
	defer func() {
		if p := recover(); p != nil {
			msg = fmt.Sprint(p)
		}
	}()
	return evalC18(c, col)
}

package verifinproc

import (
	"os"
	"path/filepath"
	"testing"
	"time"

	"github.com/goccmack/gocc/internal/ast"
	"github.com/goccmack/gocc/internal/frontend/parser"
	"github.com/goccmack/gocc/internal/frontend/scanner"
	"github.com/goccmack/gocc/internal/frontend/token"
	lexItems "github.com/goccmack/gocc/internal/lexer/items"
	"github.com/goccmack/gocc/internal/parser/first"
	lr1Items "github.com/goccmack/gocc/internal/parser/lr1/items"
	"github.com/goccmack/gocc/internal/parser/symbols"
)

// pipeline is an in-process replica of main.go up to the construction of the
// lexer and parser item sets (no files are written). Panics are gocc's way of
// rejecting input and are swallowed; what the fuzz target looks for is input
// on which the pipeline does not come back.
func pipeline(src []byte) {
	defer func() { recover() }()
	sc := &scanner.Scanner{}
	sc.Init(src, token.FRONTENDTokens)
	p := parser.NewParser(parser.ActionTable, parser.GotoTable, parser.ProductionsTable, token.FRONTENDTokens)
	res, err := p.Parse(sc)
	if err != nil {
		return
	}
	g := res.(*ast.Grammar)
	gs := symbols.NewSymbols(g)
	gs.Add(g.LexPart.TokenIds()...)
	g.LexPart.UpdateStringLitTokens(gs.ListStringLitSymbols())
	lexItems.GetItemSets(g.LexPart)
	if g.SyntaxPart != nil {
		fs := first.GetFirstSets(g, gs)
		lr1Items.GetItemSets(g, gs, fs)
	}
}

// FuzzC09Pipeline: coverage-guided search for grammar texts on which gocc's
// analysis does not terminate. A hit only counts after the real binary
// reproduces it under the CPU limit (the driver does that).
func FuzzC09Pipeline(f *testing.F) {
	repo := os.Getenv("VERIF_REPO")
	if repo == "" {
		repo = "/repo"
	}
	seeds, _ := filepath.Glob(filepath.Join(repo, "example", "*", "*.bnf"))
	for _, s := range seeds {
		if b, err := os.ReadFile(s); err == nil && len(b) < 1500 {
			f.Add(b)
		}
	}
	for _, s := range []string{
		"t : { [ 'a' ] } 'b' ;", "t : { { 'a' } } ;", "t : [ { 'a' | [ 'b' ] } ] 'c' ;", "_x : { 'a' } ; t : { _x } 'z' ;",
		"t : ( ( ( 'a' ) ) ) ; !w : ' ' ;", "A : A a | empty ;", "A : error b | A c ;", "_a : _b ; _b : 'x' ; t : _a ;",
		"t : . { . } ;", "t : 'a'-'z' { 'a'-'z' | '0'-'9' } ; S : \"if\" t | t ;",
	} {
		f.Add([]byte(s))
	}
	f.Fuzz(func(t *testing.T, src []byte) {
		if len(src) > 300 {
			return
		}
		done := make(chan struct{})
		go func() {
			defer close(done)
			pipeline(src)
		}()
		select {
		case <-done:
		case <-time.After(20 * time.Second):
			t.Fatalf("gocc's analysis did not come back within 20 s on %q", src)
		}
	})
}

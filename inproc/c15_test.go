package verifinproc

import (
	"encoding/json"
	"fmt"
	"os"
	"strings"
	"testing"

	"github.com/goccmack/gocc/internal/frontend/parser"
	"github.com/goccmack/gocc/internal/frontend/token"
	"pgregory.net/rapid"
	"verif.local/h/cfg"
	"verif.local/h/ev"
	"verif.local/h/spec"
)

// C15 — the front end accepts exactly the token language of spec/gocc2.ebnf,
// decided on the tables themselves: the real ActionTable / GotoTable drive the
// real parser loop, the reduce functions are replaced by a recorder.

type node struct{ head string }

type reduction struct {
	Head string
	Body []string
}

type tokScanner struct {
	types []token.Type
	i     int
}

func (s *tokScanner) Scan() (*token.Token, token.Position) {
	pos := token.Position{Offset: s.i, Line: 1, Column: s.i + 1}
	if s.i >= len(s.types) {
		s.i++
		return token.NewToken(token.EOF, nil), pos
	}
	t := s.types[s.i]
	s.i++
	return token.NewToken(t, []byte("x")), pos
}

// A long-lived parser object, used for every sequence of the run next to a
// fresh one: main.go creates one parser per run, but nothing in the parser's
// interface says it may not be used again, and its verdicts must not depend on
// what it parsed before.
var (
	reusedParser *parser.Parser
	reusedReds   *[]reduction
)

func runReused(types []token.Type) (accepted bool, reds []reduction, panicMsg string) {
	tm := token.FRONTENDTokens
	if reusedParser == nil {
		var sink []reduction
		reusedReds = &sink
		tab := make(parser.ProdTab, len(parser.ProductionsTable))
		for i, e := range parser.ProductionsTable {
			e := e
			tab[i] = parser.ProdTabEntry{String: e.String, Head: e.Head, NumSymbols: e.NumSymbols,
				ReduceFunc: func(X []parser.Attrib) (parser.Attrib, error) {
					r := reduction{Head: string(e.Head)}
					for _, x := range X {
						switch v := x.(type) {
						case *token.Token:
							r.Body = append(r.Body, tm.TokenString(v.Type))
						case *node:
							r.Body = append(r.Body, v.head)
						default:
							r.Body = append(r.Body, fmt.Sprintf("?%T", x))
						}
					}
					*reusedReds = append(*reusedReds, r)
					return &node{head: string(e.Head)}, nil
				}}
		}
		reusedParser = parser.NewParser(parser.ActionTable, parser.GotoTable, tab, tm)
	}
	*reusedReds = nil
	defer func() {
		if p := recover(); p != nil {
			panicMsg = fmt.Sprint(p)
			reusedParser = nil // a panic may leave it in any state
		}
	}()
	_, err := reusedParser.Parse(&tokScanner{types: types})
	return err == nil, *reusedReds, ""
}

// runFrontEnd parses the type sequence with the shipped tables.
func runFrontEnd(types []token.Type) (accepted bool, root string, reds []reduction, panicMsg string) {
	tm := token.FRONTENDTokens
	tab := make(parser.ProdTab, len(parser.ProductionsTable))
	for i, e := range parser.ProductionsTable {
		e := e
		tab[i] = parser.ProdTabEntry{String: e.String, Head: e.Head, NumSymbols: e.NumSymbols,
			ReduceFunc: func(X []parser.Attrib) (parser.Attrib, error) {
				r := reduction{Head: string(e.Head)}
				for _, x := range X {
					switch v := x.(type) {
					case *token.Token:
						r.Body = append(r.Body, tm.TokenString(v.Type))
					case *node:
						r.Body = append(r.Body, v.head)
					default:
						r.Body = append(r.Body, fmt.Sprintf("?%T", x))
					}
				}
				if len(X) != e.NumSymbols {
					r.Body = append(r.Body, fmt.Sprintf("!popped %d of %d", len(X), e.NumSymbols))
				}
				reds = append(reds, r)
				return &node{head: string(e.Head)}, nil
			}}
	}
	defer func() {
		if p := recover(); p != nil {
			panicMsg = fmt.Sprint(p)
		}
	}()
	p := parser.NewParser(parser.ActionTable, parser.GotoTable, tab, tm)
	res, err := p.Parse(&tokScanner{types: types})
	if err != nil {
		return false, "", reds, ""
	}
	if n, ok := res.(*node); ok {
		root = n.head
	} else {
		root = fmt.Sprintf("?%T", res)
	}
	return true, root, reds, ""
}

type C15Case struct {
	Toks []string `json:"toks"` // names of FRONTENDTokens; "ILLEGAL" and "BEYOND" for out-of-alphabet types
}

var alphabet = []string{"id", "tokId", ":", ";", "regDefId", "ignoredTokId", "|", ".", "char_lit", "-", "[", "]", "{", "}", "(", ")", "prodId", "g_sdt_lit", "error", "empty", "string_lit"}

func typesOf(names []string) []token.Type {
	out := make([]token.Type, len(names))
	for i, n := range names {
		switch n {
		case "ILLEGAL":
			out[i] = token.ILLEGAL
		case "BEYOND":
			out[i] = token.Type(99)
		default:
			out[i] = token.FRONTENDTokens.Type(n)
		}
	}
	return out
}

type c15Env struct {
	noReuse bool
	sp      *spec.Spec
	prods   map[string]bool // "Head : a b c"
	d       *cfg.Deriver
	col     *ev.Collector
}

func newC15Env(t testing.TB) *c15Env {
	repo := os.Getenv("VERIF_REPO")
	if repo == "" {
		repo = "/repo"
	}
	sp, err := spec.Load(repo)
	if err != nil {
		t.Fatalf("INFRA: %v", err)
	}
	e := &c15Env{sp: sp, prods: map[string]bool{}, d: cfg.NewDeriver(sp.C, false)}
	for _, p := range sp.C.Prods[1:] {
		var body []string
		for _, s := range p.Body {
			body = append(body, sp.C.SymName(s))
		}
		e.prods[sp.C.NTs[p.Head]+" : "+strings.Join(body, " ")] = true
	}
	return e
}

func (e *c15Env) eval(c C15Case) string {
	ids := make([]int, len(c.Toks))
	for i, n := range c.Toks {
		if e.sp.C.HasTerm(n) {
			ids[i] = e.sp.C.Term(n)
		} else {
			ids[i] = -1
		}
	}
	want := e.sp.E.Accepts(ids)
	got, root, reds, pm := runFrontEnd(typesOf(c.Toks))
	if e.col != nil {
		e.col.Eval()
	}
	if pm != "" {
		return fmt.Sprintf("token sequence %v: the front-end parser panicked: %s", c.Toks, pm)
	}
	if got != want {
		return fmt.Sprintf("token sequence %v: sentence of spec/gocc2.ebnf: %v, accepted by the shipped tables: %v", c.Toks, want, got)
	}
	if !e.noReuse {
		rgot, rreds, rpm := runReused(typesOf(c.Toks))
		if rpm != "" || rgot != got || fmt.Sprint(rreds) != fmt.Sprint(reds) {
			return fmt.Sprintf("token sequence %v: a parser object that was used before gives accepted=%v, %d reductions %s; a fresh parser gives accepted=%v, %d reductions", c.Toks, rgot, len(rreds), rpm, got, len(reds))
		}
	}
	for _, r := range reds {
		k := r.Head + " : " + strings.Join(r.Body, " ")
		if !e.prods[k] {
			return fmt.Sprintf("token sequence %v: the parser reduced by %q, which is not a production of spec/gocc2.ebnf", c.Toks, k)
		}
	}
	if got && root != "Grammar" {
		return fmt.Sprintf("token sequence %v: accepted with root %q", c.Toks, root)
	}
	if e.col != nil {
		vp := 0
		if !want {
			vp = e.sp.E.ViablePrefixLen(ids)
			e.col.Class("non_sentence")
		} else {
			e.col.Class("sentence")
		}
		if (want && len(ids) >= 8) || (!want && vp >= 4) {
			e.col.NonTrivial(ev.Hash(strings.Join(c.Toks, " ")), func() any {
				return map[string]any{"tokens": strings.Join(c.Toks, " "), "sentence": want, "viable_prefix": vp, "reductions": len(reds)}
			})
		}
	}
	return ""
}

func (e *c15Env) gen(t *rapid.T) C15Case {
	c := e.sp.C
	names := func(ids []int) []string {
		out := make([]string, len(ids))
		for i, x := range ids {
			out[i] = c.Terms[x]
		}
		return out
	}
	full := append(append([]string{}, alphabet...), "ILLEGAL", "BEYOND")
	if rapid.IntRange(0, 59).Draw(t, "deepNesting") == 0 {
		// brackets nested deeper than the parser stack's initial capacity
		d := rapid.IntRange(90, 210).Draw(t, "depth")
		open := rapid.SampledFrom([]string{"(", "[", "{"}).Draw(t, "bracket")
		cl := map[string]string{"(": ")", "[": "]", "{": "}"}[open]
		toks := []string{"tokId", ":"}
		for i := 0; i < d; i++ {
			toks = append(toks, open)
		}
		toks = append(toks, "char_lit")
		nClose := d
		switch rapid.IntRange(0, 3).Draw(t, "balance") {
		case 0:
			nClose = d - 1
		case 1:
			nClose = d + 1
		}
		for i := 0; i < nClose; i++ {
			toks = append(toks, cl)
		}
		toks = append(toks, ";")
		return C15Case{Toks: toks}
	}
	mode := rapid.IntRange(0, 9).Draw(t, "mode")
	_, y := e.d.Derive(t, rapid.IntRange(3, 26).Draw(t, "height"))
	if len(y) > 60 {
		_, y = e.d.Derive(t, rapid.IntRange(6, 14).Draw(t, "height2"))
		if len(y) > 60 {
			_, y = e.d.Derive(t, 6)
		}
	}
	toks := names(y)
	switch {
	case mode <= 3:
	case mode <= 7:
		n := rapid.IntRange(1, 2).Draw(t, "nMut")
		for k := 0; k < n; k++ {
			op := rapid.IntRange(0, 3).Draw(t, "op")
			if len(toks) == 0 {
				op = 1
			}
			switch op {
			case 0:
				i := rapid.IntRange(0, len(toks)-1).Draw(t, "del")
				toks = append(append([]string{}, toks[:i]...), toks[i+1:]...)
			case 1:
				i := rapid.IntRange(0, len(toks)).Draw(t, "ins")
				x := rapid.SampledFrom(full).Draw(t, "insTok")
				toks = append(append(append([]string{}, toks[:i]...), x), toks[i:]...)
			case 2:
				i := rapid.IntRange(0, len(toks)-1).Draw(t, "sub")
				toks = append([]string{}, toks...)
				toks[i] = rapid.SampledFrom(full).Draw(t, "subTok")
			default:
				if len(toks) >= 2 {
					i := rapid.IntRange(0, len(toks)-2).Draw(t, "swap")
					toks = append([]string{}, toks...)
					toks[i], toks[i+1] = toks[i+1], toks[i]
				}
			}
		}
	default:
		toks = rapid.SliceOfN(rapid.SampledFrom(full), 0, 12).Draw(t, "random")
	}
	return C15Case{Toks: toks}
}

func TestC15(t *testing.T) {
	e := newC15Env(t)
	e.col = ev.New("C15")
	rec := &ev.Recorder{Dir: os.Getenv("VERIF_REPLAY_OUT"), Prop: "C15", Engine: "inproc", Seed: os.Getenv("VERIF_SEED")}
	defer func() {
		rec.Flush(e.col)
		if p := os.Getenv("VERIF_STATS"); p != "" {
			e.col.Write(p)
		}
	}()
	if rp := os.Getenv("VERIF_REPLAY"); rp != "" {
		var c C15Case
		if _, err := ev.LoadReplay(rp, &c); err != nil {
			t.Fatalf("INFRA: %v", err)
		}
		if m := e.eval(c); m != "" {
			t.Fatalf("replay fails: %s", m)
		}
		return
	}
	rapid.Check(t, func(rt *rapid.T) {
		c := e.gen(rt)
		if m := e.eval(c); m != "" {
			cb, _ := json.Marshal(c)
			rec.Record(cb, m)
			rt.Fatalf("%s", m)
		}
	})
}

// FuzzC15 is the native fuzz target of the thorough tier: bytes -> token types.
func FuzzC15(f *testing.F) {
	e := newC15Env(f)
	f.Add([]byte{1, 2, 7, 3})
	f.Add([]byte{16, 2, 1, 20, 17, 3})
	f.Fuzz(func(t *testing.T, b []byte) {
		if len(b) > 80 {
			b = b[:80]
		}
		full := append(append([]string{}, alphabet...), "ILLEGAL", "BEYOND")
		toks := make([]string, len(b))
		for i, x := range b {
			toks[i] = full[int(x)%len(full)]
		}
		if m := e.eval(C15Case{Toks: toks}); m != "" {
			t.Fatal(m)
		}
	})
}

// ---------------------------------------------------------------------------
// Systematic part: every entry of the *reference* canonical LR(1) automaton of
// the spec grammar is aimed at — a shortest path of grammar symbols to the
// state, the terminal of the entry, then a completion to a sentence guided by
// Earley's expected sets. One flipped entry in the shipped tables is exactly
// the kind of drift this reaches.

type lrEntry struct{ state, term int }

type c15Sys struct {
	e       *c15Env
	lr      *cfg.LR1
	entries []lrEntry
	prefix  map[int][]int // state -> terminal string leading to it
}

func newC15Sys(e *c15Env) (*c15Sys, error) {
	lr, err := cfg.BuildLR1(e.sp.C)
	if err != nil {
		return nil, err
	}
	s := &c15Sys{e: e, lr: lr, prefix: map[int][]int{0: {}}}
	// BFS over goto edges; nonterminal edges are expanded by minimal yields
	type back struct{ from, sym int }
	prev := map[int]back{}
	queue := []int{0}
	seen := map[int]bool{0: true}
	for len(queue) > 0 {
		st := queue[0]
		queue = queue[1:]
		var syms []int
		for sym := range lr.States[st].Goto {
			syms = append(syms, sym)
		}
		sortInts(syms)
		for _, sym := range syms {
			n := lr.States[st].Goto[sym]
			if !seen[n] {
				seen[n] = true
				prev[n] = back{st, sym}
				queue = append(queue, n)
			}
		}
	}
	full := cfg.NewDeriver(e.sp.C, false)
	for st := range lr.States {
		if st == 0 || !seen[st] {
			continue
		}
		var path []int
		for x := st; x != 0; x = prev[x].from {
			path = append([]int{prev[x].sym}, path...)
		}
		var toks []int
		ok := true
		for _, sym := range path {
			if e.sp.C.IsTerm(sym) {
				toks = append(toks, sym)
			} else if y, o := full.MinYield(e.sp.C.NTIndex(sym)); o {
				toks = append(toks, y...)
			} else {
				ok = false
			}
		}
		if ok {
			s.prefix[st] = toks
		}
	}
	for st := range lr.States {
		if _, ok := s.prefix[st]; !ok {
			continue
		}
		var ts []int
		for t := range lr.States[st].Acts {
			ts = append(ts, t)
		}
		sortInts(ts)
		for _, t := range ts {
			s.entries = append(s.entries, lrEntry{st, t})
		}
	}
	return s, nil
}

func sortInts(a []int) {
	for i := 1; i < len(a); i++ {
		for j := i; j > 0 && a[j] < a[j-1]; j-- {
			a[j], a[j-1] = a[j-1], a[j]
		}
	}
}

// gen draws an entry and a sentence through it.
func (s *c15Sys) gen(t *rapid.T) (C15Case, lrEntry) {
	en := s.entries[rapid.IntRange(0, len(s.entries)-1).Draw(t, "entry")]
	c := s.e.sp.C
	w := append([]int{}, s.prefix[en.state]...)
	if en.term != cfg.EOF {
		w = append(w, en.term)
	}
	// completion guided by Earley's expected sets
	for len(w) < 70 {
		exp, ok := s.e.sp.E.Expected(w)
		if !ok {
			break
		}
		var cand []int
		for x := range exp {
			if x != cfg.EOF {
				cand = append(cand, x)
			}
		}
		sortInts(cand)
		if exp[cfg.EOF] && (len(cand) == 0 || rapid.IntRange(0, 2).Draw(t, "stop") != 0) {
			break
		}
		if len(cand) == 0 {
			break
		}
		// prefer terminals that close something when the sentence gets long
		pick := cand[rapid.IntRange(0, len(cand)-1).Draw(t, "next")]
		if len(w) > 30 {
			for _, x := range cand {
				switch c.Terms[x] {
				case ";", "]", "}", ")":
					pick = x
				}
			}
		}
		w = append(w, pick)
	}
	names := make([]string, len(w))
	for i, x := range w {
		names[i] = c.Terms[x]
	}
	// one in four: damage the sentence right after the entry's terminal
	if rapid.IntRange(0, 3).Draw(t, "damage") == 0 && len(names) > 0 {
		i := rapid.IntRange(0, len(names)-1).Draw(t, "at")
		full := append(append([]string{}, alphabet...), "ILLEGAL")
		names[i] = rapid.SampledFrom(full).Draw(t, "bad")
	}
	return C15Case{Toks: names}, en
}

// TestC15Entries: the systematic sweep.
func TestC15Entries(t *testing.T) {
	e := newC15Env(t)
	e.col = ev.New("C15")
	sys, err := newC15Sys(e)
	if err != nil {
		t.Fatalf("INFRA: %v", err)
	}
	rec := &ev.Recorder{Dir: os.Getenv("VERIF_REPLAY_OUT"), Prop: "C15", Engine: "inproc", Seed: os.Getenv("VERIF_SEED")}
	covered := map[lrEntry]bool{}
	defer func() {
		rec.Flush(e.col)
		e.col.ClassN("reference_lr1_entries_total_x_shards", len(sys.entries))
		e.col.ClassN("reference_lr1_entries_aimed_at_summed_over_shards", len(covered))
		e.col.ClassN("reference_lr1_states_x_shards", len(sys.lr.States))
		if p := os.Getenv("VERIF_STATS"); p != "" {
			e.col.Write(p)
		}
	}()
	if os.Getenv("VERIF_REPLAY") != "" {
		return // replays are evaluated by TestC15
	}
	rapid.Check(t, func(rt *rapid.T) {
		c, en := sys.gen(rt)
		covered[en] = true
		if m := e.eval(c); m != "" {
			cb, _ := json.Marshal(c)
			rec.Record(cb, m)
			rt.Fatalf("%s", m)
		}
	})
}

package verifinproc

import (
	"encoding/json"
	"fmt"
	goast "go/ast"
	"go/constant"
	goparser "go/parser"
	gotoken "go/token"
	"os"
	"path/filepath"
	"strconv"
	"testing"

	"verif.local/h/ev"
	"verif.local/h/ex"
	"verif.local/h/gen"
)

// readTransTab reads the rune classes of every state function of a generated
// lexer/transitiontable.go with go/parser: case tests of the forms
// "A <= r && r <= B" and "r == A" with A, B integer or character constants.
// Cases of any other form (imports, a layout this reader does not know) are
// counted in unread and skipped.
func readTransTab(src string) (states [][]iv, unread int, err error) {
	fset := gotoken.NewFileSet()
	f, err := goparser.ParseFile(fset, "transitiontable.go", src, 0)
	if err != nil {
		return nil, 0, err
	}
	val := func(e goast.Expr) (rune, bool) {
		if p, ok := e.(*goast.ParenExpr); ok {
			e = p.X
		}
		lit, ok := e.(*goast.BasicLit)
		if !ok || (lit.Kind != gotoken.INT && lit.Kind != gotoken.CHAR) {
			return 0, false
		}
		c := constant.MakeFromLiteral(lit.Value, lit.Kind, 0)
		n, exact := constant.Int64Val(constant.ToInt(c))
		return rune(n), exact
	}
	isR := func(e goast.Expr) bool {
		id, ok := e.(*goast.Ident)
		return ok && id.Name == "r"
	}
	one := func(e goast.Expr) (iv, bool) {
		b, ok := e.(*goast.BinaryExpr)
		if !ok {
			return iv{}, false
		}
		switch b.Op {
		case gotoken.EQL:
			if isR(b.X) {
				if v, ok := val(b.Y); ok {
					return iv{v, v}, true
				}
			}
			if isR(b.Y) {
				if v, ok := val(b.X); ok {
					return iv{v, v}, true
				}
			}
		case gotoken.LAND:
			l, ok1 := b.X.(*goast.BinaryExpr)
			r, ok2 := b.Y.(*goast.BinaryExpr)
			if ok1 && ok2 && l.Op == gotoken.LEQ && r.Op == gotoken.LEQ && isR(l.Y) && isR(r.X) {
				lo, okl := val(l.X)
				hi, okh := val(r.Y)
				if okl && okh {
					return iv{lo, hi}, true
				}
			}
		}
		return iv{}, false
	}
	goast.Inspect(f, func(n goast.Node) bool {
		fl, ok := n.(*goast.FuncLit)
		if !ok {
			return true
		}
		var cur []iv
		goast.Inspect(fl.Body, func(m goast.Node) bool {
			cc, ok := m.(*goast.CaseClause)
			if !ok {
				return true
			}
			for _, e := range cc.List {
				if c, ok := one(e); ok {
					cur = append(cur, c)
				} else {
					unread++
				}
			}
			return true
		})
		states = append(states, cur)
		return false
	})
	return states, unread, nil
}

// checkTransTab validates the case ranges of every state function of a
// generated lexer/transitiontable.go: non-empty, sorted, pairwise disjoint, and
// — when the item sets built in process from the same grammar have the same
// number of states — exactly the classes of the corresponding state.
func checkTransTab(src string, grammar string) (states int, classes int, msg string) {
	tab, unread, err := readTransTab(src)
	if err != nil {
		return 0, 0, "the generated transitiontable.go is not valid Go: " + err.Error()
	}
	_ = unread
	for si, cur := range tab {
		for i, c := range cur {
			if c.Lo > c.Hi {
				return len(tab), classes, fmt.Sprintf("state %d: empty class [%d,%d]", si, c.Lo, c.Hi)
			}
			if i > 0 && cur[i-1].Hi >= c.Lo {
				return len(tab), classes, fmt.Sprintf("state %d: classes [%d,%d] and [%d,%d] overlap or are unsorted", si, cur[i-1].Lo, cur[i-1].Hi, c.Lo, c.Hi)
			}
		}
		classes += len(cur)
	}
	if grammar != "" && unread == 0 {
		if sets, m := lexerStates(grammar); m == "" && sets.Size() == len(tab) {
			for si, set := range sets.List() {
				want := set.SymbolClasses.List()
				if len(want) != len(tab[si]) {
					return len(tab), classes, fmt.Sprintf("state %d: the table has %d classes %v, the state's class set has %d: %v", si, len(tab[si]), tab[si], len(want), want)
				}
				for k, w := range want {
					if w.From != tab[si][k].Lo || w.To != tab[si][k].Hi {
						return len(tab), classes, fmt.Sprintf("state %d: class %d of the table is [%d,%d], the state's class set has [%d,%d]", si, k, tab[si][k].Lo, tab[si][k].Hi, w.From, w.To)
					}
				}
			}
		}
	}
	return len(tab), classes, ""
}

// tablesOf runs gocc on one grammar text and validates the generated table
// ("" = fine or not generated).
func tablesOf(env *ex.Env, grammar string) (states, classes int, msg string, generated bool, err error) {
	dir, err := env.Root("g")
	if err != nil {
		return 0, 0, "", false, err
	}
	os.WriteFile(filepath.Join(dir, "g.bnf"), []byte(grammar), 0o644)
	r := env.Run(dir, nil, "-a", "-o", "out", "g.bnf")
	if r.Exit != 0 {
		return 0, 0, "", false, nil
	}
	b, err := os.ReadFile(filepath.Join(dir, "out", "lexer", "transitiontable.go"))
	if err != nil {
		return 0, 0, "", false, err
	}
	states, classes, msg = checkTransTab(string(b), grammar)
	return states, classes, msg, true, nil
}

// TestC18Tables runs gocc on generated lexical grammars and validates the rune
// classes of every state of the generated transition table.
func TestC18Tables(t *testing.T) {
	env, err := ex.FromEnv("c18t" + os.Getenv("VERIF_SHARD"))
	if err != nil {
		t.Skip(err.Error())
	}
	col := ev.New("C18")
	defer func() {
		if p := os.Getenv("VERIF_STATS"); p != "" {
			col.Write(p)
		}
	}()
	n := 250
	if os.Getenv("VERIF_TIER") == "thorough" {
		n = 600
	}
	seed, _ := strconv.Atoi(os.Getenv("VERIF_SEED"))
	shard, _ := strconv.Atoi(os.Getenv("VERIF_SHARD"))
	g := gen.LexGrammar(gen.DefaultLexOpts())
	for i := 0; i < n; i++ {
		gm := g.Example(seed*1000000 + shard*10000 + i)
		states, classes, msg, generated, err := tablesOf(env, gm.Source())
		if err != nil {
			t.Fatalf("INFRA: %v", err)
		}
		if !generated {
			col.Class("gocc_nonzero")
			continue
		}
		col.Eval()
		col.ClassN("generated_states", states)
		col.ClassN("generated_classes", classes)
		if msg != "" {
			m := fmt.Sprintf("grammar:\n%s\ngenerated transition table: %s", gm.Source(), msg)
			recordGrammarViolation(col, "C18", "tables", gm.Source(), m)
			t.Fatalf("%s", m)
		}
		if classes >= 4 {
			col.NonTrivial(ev.Hash(gm.Source()), func() any {
				return map[string]any{"kind": "generated transition table", "grammar": gm.Source(), "states": states, "classes": classes}
			})
		}
	}
}

// recordGrammarViolation writes a replay holding the grammar text and reports
// the violation through the collector (the driver needs both).
func recordGrammarViolation(col *ev.Collector, prop, kind, grammar, msg string) {
	rec := &ev.Recorder{Dir: os.Getenv("VERIF_REPLAY_OUT"), Prop: prop, Engine: "inproc", Seed: os.Getenv("VERIF_SEED")}
	cb, _ := json.Marshal(map[string]string{"kind": kind, "grammar": grammar})
	rec.Record(cb, msg)
	rec.Flush(col)
}

package verifinproc

import (
	"encoding/json"
	"fmt"
	"os"
	"path/filepath"
	"regexp"
	"strconv"
	"strings"
	"testing"

	"verif.local/h/ev"
	"verif.local/h/ex"
	"verif.local/h/gen"
)

var (
	caseRange = regexp.MustCompile(`^\s*case (\d+) <= r && r <= (\d+):`)
	caseOne   = regexp.MustCompile(`^\s*case r == (\d+):`)
)

// checkTransTab validates the case ranges of every state function of a
// generated lexer/transitiontable.go: non-empty, sorted, pairwise disjoint.
func checkTransTab(src string) (states int, classes int, msg string) {
	var cur []iv
	inFunc := false
	flush := func() string {
		for i, c := range cur {
			if c.Lo > c.Hi {
				return fmt.Sprintf("state %d: empty class [%d,%d]", states-1, c.Lo, c.Hi)
			}
			if i > 0 && cur[i-1].Hi >= c.Lo {
				return fmt.Sprintf("state %d: classes [%d,%d] and [%d,%d] overlap or are unsorted", states-1, cur[i-1].Lo, cur[i-1].Hi, c.Lo, c.Hi)
			}
		}
		classes += len(cur)
		cur = nil
		return ""
	}
	for _, l := range strings.Split(src, "\n") {
		if strings.Contains(l, "func(r rune) int {") {
			if inFunc {
				if m := flush(); m != "" {
					return states, classes, m
				}
			}
			inFunc = true
			states++
			continue
		}
		if m := caseRange.FindStringSubmatch(l); m != nil {
			a, _ := strconv.Atoi(m[1])
			b, _ := strconv.Atoi(m[2])
			cur = append(cur, iv{rune(a), rune(b)})
		} else if m := caseOne.FindStringSubmatch(l); m != nil {
			a, _ := strconv.Atoi(m[1])
			cur = append(cur, iv{rune(a), rune(a)})
		}
	}
	if m := flush(); m != "" {
		return states, classes, m
	}
	return states, classes, ""
}

// TestC18Tables runs gocc on generated lexical grammars and validates the rune
// classes of every state of the generated transition table.
func TestC18Tables(t *testing.T) {
	env, err := ex.FromEnv("c18t" + os.Getenv("VERIF_SHARD"))
	if err != nil {
		t.Skip(err.Error())
	}
	col := ev.New("C18")
	defer func() {
		if p := os.Getenv("VERIF_STATS"); p != "" {
			col.Write(p)
		}
	}()
	n := 40
	if os.Getenv("VERIF_TIER") == "thorough" {
		n = 600
	}
	seed, _ := strconv.Atoi(os.Getenv("VERIF_SEED"))
	shard, _ := strconv.Atoi(os.Getenv("VERIF_SHARD"))
	g := gen.LexGrammar(gen.DefaultLexOpts())
	for i := 0; i < n; i++ {
		gm := g.Example(seed*1000000 + shard*10000 + i)
		dir, err := env.Root("g")
		if err != nil {
			t.Fatalf("INFRA: %v", err)
		}
		os.WriteFile(filepath.Join(dir, "g.bnf"), []byte(gm.Source()), 0o644)
		r := env.Run(dir, nil, "-a", "-o", "out", "g.bnf")
		if r.Exit != 0 {
			col.Class("gocc_nonzero")
			continue
		}
		b, err := os.ReadFile(filepath.Join(dir, "out", "lexer", "transitiontable.go"))
		if err != nil {
			t.Fatalf("INFRA: %v", err)
		}
		states, classes, msg := checkTransTab(string(b))
		col.Eval()
		col.ClassN("generated_states", states)
		col.ClassN("generated_classes", classes)
		if msg != "" {
			m := fmt.Sprintf("grammar:\n%s\ngenerated transition table: %s", gm.Source(), msg)
			recordGrammarViolation(col, "C18", "tables", gm.Source(), m)
			t.Fatalf("%s", m)
		}
		if classes >= 4 {
			col.NonTrivial(ev.Hash(gm.Source()), func() any {
				return map[string]any{"kind": "generated transition table", "grammar": gm.Source(), "states": states, "classes": classes}
			})
		}
	}
}

// recordGrammarViolation writes a replay holding the grammar text and reports
// the violation through the collector (the driver needs both).
func recordGrammarViolation(col *ev.Collector, prop, kind, grammar, msg string) {
	rec := &ev.Recorder{Dir: os.Getenv("VERIF_REPLAY_OUT"), Prop: prop, Engine: "inproc", Seed: os.Getenv("VERIF_SEED")}
	cb, _ := json.Marshal(map[string]string{"kind": kind, "grammar": grammar})
	rec.Record(cb, msg)
	rec.Flush(col)
}

package verifinproc

import (
	"fmt"
	"go/constant"
	gotoken "go/token"
	"os"
	"path/filepath"
	"regexp"
	"sort"
	"strconv"
	"strings"
	"testing"
	"unicode/utf8"

	"github.com/goccmack/gocc/internal/util"
	gutil "github.com/goccmack/gocc/verifinproc/gutil/util"
	"pgregory.net/rapid"
	"verif.local/h/ev"
	"verif.local/h/ex"
)

// C20 — literal conversion helpers agree with Go's own literal semantics.

// goRune is the oracle: what Go itself assigns to the rune literal.
func goRune(lit string) (rune, bool) {
	v := constant.MakeFromLiteral(lit, gotoken.CHAR, 0)
	if v.Kind() != constant.Int {
		return 0, false
	}
	n, ok := constant.Int64Val(v)
	return rune(n), ok
}

func callRune(f func([]byte) rune, lit string) (r rune, panicked string) {
	defer func() {
		if p := recover(); p != nil {
			panicked = fmt.Sprint(p)
		}
	}()
	return f([]byte(lit)), ""
}

func checkLit(lit string) string {
	want, ok := goRune(lit)
	if !ok {
		return "" // not a valid Go rune literal: outside the property
	}
	if got, p := callRune(util.LitToRune, lit); p != "" || got != want {
		return fmt.Sprintf("rune literal %s: Go says %d (%U); gocc's own decoder (util.LitToRune) says %d %s", lit, want, want, got, p)
	}
	if got, p := callRune(gutil.RuneValue, lit); p != "" || got != want {
		return fmt.Sprintf("rune literal %s: Go says %d (%U); the generated util.RuneValue says %d %s", lit, want, want, got, p)
	}
	return ""
}

func TestC20(t *testing.T) {
	col := ev.New("C20")
	defer func() {
		if p := os.Getenv("VERIF_STATS"); p != "" {
			col.Write(p)
		}
	}()
	if rp := os.Getenv("VERIF_REPLAY"); rp != "" {
		var c struct {
			Lit string `json:"lit"`
			Dec string `json:"dec"`
		}
		if _, err := ev.LoadReplay(rp, &c); err != nil {
			t.Fatalf("INFRA: %v", err)
		}
		col.Eval()
		if c.Lit != "" {
			if m := checkLit(c.Lit); m != "" {
				t.Fatalf("replay fails: %s", m)
			}
		}
		if c.Dec != "" {
			if m := checkDec(c.Dec); m != "" {
				t.Fatalf("replay fails: %s", m)
			}
		}
		return
	}
	rec := &ev.Recorder{Dir: os.Getenv("VERIF_REPLAY_OUT"), Prop: "C20", Engine: "inproc", Seed: os.Getenv("VERIF_SEED")}
	defer rec.Flush(col)
	fail := func(kind, s, m string) {
		rec.Record([]byte(fmt.Sprintf(`{%q:%q}`, kind, s)), m)
		t.Fatalf("%s", m)
	}
	count := 0
	try := func(lit string) {
		count++
		if m := checkLit(lit); m != "" {
			fail("lit", lit, m)
		}
	}
	// exhaustive over the finite sub-spaces
	for r := rune(0); r <= utf8.MaxRune; r++ {
		if r >= 0xd800 && r <= 0xdfff {
			continue
		}
		if r != '\'' && r != '\\' && r != '\n' {
			try("'" + string(r) + "'") // raw UTF-8 form, 1-4 bytes
		}
		try(fmt.Sprintf(`'\U%08x'`, r))
		if r < 0x10000 {
			try(fmt.Sprintf(`'\u%04x'`, r))
		}
		if r < 256 {
			try(fmt.Sprintf(`'\x%02x'`, r))
			try(fmt.Sprintf(`'\x%02X'`, r))
			try(fmt.Sprintf(`'\%03o'`, r))
		}
	}
	for _, e := range []string{`'\a'`, `'\b'`, `'\f'`, `'\n'`, `'\r'`, `'\t'`, `'\v'`, `'\\'`, `'\''`} {
		try(e)
	}
	col.EvalN(count)
	col.ClassN("exhaustive_rune_literals", count)
	col.SetExhaustive(false) // sub-spaces are enumerated completely (see notes); the whole domain (hex-digit case variants, decimals) is not finite
	col.Note(fmt.Sprintf("exhaustive: %d rune literals (raw UTF-8 of every scalar value, \\U of every scalar value, \\u of every BMP scalar, \\x (both hex cases) and octal 0-255, the nine named escapes)", count))
	for i, s := range []string{"'é'", `'世'`, `'\U0001f600'`, `'\xff'`, `'\377'`, `'\a'`, "'\U0010ffff'"} {
		col.NonTrivial(fmt.Sprintf("sample%d", i), func() any { r, _ := goRune(s); return map[string]any{"literal": s, "code_point": r} })
	}
	// every literal >= 0x80 or escape is non-trivial; count them
	col.ClassN("nontrivial_non_ascii_or_escape", count-0x80+3)
	// rapid: hex digit case variants and decimal literals
	rapid.Check(t, func(rt *rapid.T) {
		r := rune(rapid.IntRange(0, utf8.MaxRune).Draw(rt, "r"))
		if r >= 0xd800 && r <= 0xdfff {
			r = 0xd7ff
		}
		lit := fmt.Sprintf(`'\U%08x'`, r)
		if r < 0x10000 && rapid.Bool().Draw(rt, "u4") {
			lit = fmt.Sprintf(`'\u%04x'`, r)
		}
		b := []byte(lit)
		for i := 3; i < len(b)-1; i++ {
			if b[i] >= 'a' && b[i] <= 'f' && rapid.Bool().Draw(rt, "upper") {
				b[i] -= 32
			}
		}
		col.Eval()
		if m := checkLit(string(b)); m != "" {
			rec.Record([]byte(fmt.Sprintf(`{"lit":%q}`, string(b))), m)
			rt.Fatalf("%s", m)
		}
		col.NonTrivial(ev.Hash(string(b)), nil)
		// decimal literal
		nd := rapid.IntRange(1, 21).Draw(rt, "digits")
		var sb strings.Builder
		if rapid.IntRange(0, 3).Draw(rt, "sign") == 0 {
			sb.WriteString(rapid.SampledFrom([]string{"-", "+"}).Draw(rt, "signCh"))
		}
		switch rapid.IntRange(0, 5).Draw(rt, "boundary") {
		case 0:
			sb.WriteString(rapid.SampledFrom([]string{"9223372036854775807", "9223372036854775808", "18446744073709551615", "18446744073709551616", "0", "00", "007", "9223372036854775806"}).Draw(rt, "bnd"))
		default:
			for i := 0; i < nd; i++ {
				sb.WriteByte(byte('0' + rapid.IntRange(0, 9).Draw(rt, "d")))
			}
		}
		col.Eval()
		if m := checkDec(sb.String()); m != "" {
			rec.Record([]byte(fmt.Sprintf(`{"dec":%q}`, sb.String())), m)
			rt.Fatalf("%s", m)
		}
		col.NonTrivial(ev.Hash("dec", sb.String()), func() any { return map[string]any{"decimal": sb.String()} })
	})
}

func checkDec(s string) string {
	wi, ei := strconv.ParseInt(s, 10, 64)
	wu, eu := strconv.ParseUint(s, 10, 64)
	gi, gei := gutil.IntValue([]byte(s))
	gu, geu := gutil.UintValue([]byte(s))
	if gi != wi || (gei == nil) != (ei == nil) {
		return fmt.Sprintf("decimal %q: strconv.ParseInt gives (%d, %v), generated util.IntValue gives (%d, %v)", s, wi, ei, gi, gei)
	}
	if gu != wu || (geu == nil) != (eu == nil) {
		return fmt.Sprintf("decimal %q: strconv.ParseUint gives (%d, %v), generated util.UintValue gives (%d, %v)", s, wu, eu, gu, geu)
	}
	hi, hei := util.IntValue([]byte(s))
	hu, heu := util.UintValue([]byte(s))
	if hi != wi || (hei == nil) != (ei == nil) || hu != wu || (heu == nil) != (eu == nil) {
		return fmt.Sprintf("decimal %q: gocc's own util.IntValue/UintValue disagree with strconv", s)
	}
	return ""
}

// TestC20EndToEnd: grammars t_k : LIT_k ; — the code point gocc read for each
// spelling is recovered from the generated transition and action tables.
func TestC20EndToEnd(t *testing.T) {
	env, err := ex.FromEnv("c20e" + os.Getenv("VERIF_SHARD"))
	if err != nil {
		t.Skip(err.Error())
	}
	col := ev.New("C20")
	defer func() {
		if p := os.Getenv("VERIF_STATS"); p != "" {
			col.Write(p)
		}
	}()
	runs := 4
	if os.Getenv("VERIF_TIER") == "thorough" {
		runs = 30
	}
	seed, _ := strconv.Atoi(os.Getenv("VERIF_SEED"))
	shard, _ := strconv.Atoi(os.Getenv("VERIF_SHARD"))
	for run := 0; run < runs; run++ {
		// 200 literals of distinct value, every form represented
		lits := map[rune]string{}
		gen := rapid.Custom(func(rt *rapid.T) []string {
			var out []string
			for len(out) < 200 {
				r := rune(rapid.IntRange(0, utf8.MaxRune).Draw(rt, "r"))
				switch rapid.IntRange(0, 3).Draw(rt, "zone") {
				case 0:
					r = r % 256
				case 1:
					r = r % 0x10000
				}
				if r >= 0xd800 && r <= 0xdfff || lits[r] != "" {
					continue
				}
				forms := []string{fmt.Sprintf(`'\U%08x'`, r)}
				if r < 0x10000 {
					forms = append(forms, fmt.Sprintf(`'\u%04X'`, r))
				}
				if r < 256 {
					forms = append(forms, fmt.Sprintf(`'\x%02x'`, r), fmt.Sprintf(`'\%03o'`, r))
				}
				if r != '\'' && r != '\\' && r != '\n' && r != 0 && r != utf8.RuneError {
					forms = append(forms, "'"+string(r)+"'")
				}
				for k, v := range map[rune]string{7: `'\a'`, 8: `'\b'`, 12: `'\f'`, 10: `'\n'`, 13: `'\r'`, 9: `'\t'`, 11: `'\v'`, '\\': `'\\'`, '\'': `'\''`} {
					if r == k {
						forms = append(forms, v)
					}
				}
				sort.Strings(forms)
				f := forms[rapid.IntRange(0, len(forms)-1).Draw(rt, "form")]
				lits[r] = f
				out = append(out, f)
			}
			return out
		})
		list := gen.Example(seed*100000 + shard*1000 + run)
		var src strings.Builder
		for k, l := range list {
			fmt.Fprintf(&src, "t%03d : %s ;\n", k, l)
		}
		dir, err := env.Root("g")
		if err != nil {
			t.Fatalf("INFRA: %v", err)
		}
		os.WriteFile(filepath.Join(dir, "g.bnf"), []byte(src.String()), 0o644)
		r := env.Run(dir, nil, "-o", "out", "g.bnf")
		if r.Exit != 0 {
			t.Fatalf("gocc failed on a grammar of single-character tokens:\n%s\n%s", src.String(), r.Stdout+r.Stderr)
		}
		tt, _ := os.ReadFile(filepath.Join(dir, "out", "lexer", "transitiontable.go"))
		at, _ := os.ReadFile(filepath.Join(dir, "out", "lexer", "acttab.go"))
		tk, _ := os.ReadFile(filepath.Join(dir, "out", "token", "token.go"))
		// S0: rune -> state
		s0 := map[rune]int{}
		lines := strings.Split(string(tt), "\n")
		caseOne := regexp.MustCompile(`^\s*case r == (\d+):`)
		inS0 := false
		var pending rune = -1
		for _, l := range lines {
			if strings.Contains(l, "// S0") {
				inS0 = true
				continue
			}
			if strings.Contains(l, "// S1") {
				break
			}
			if !inS0 {
				continue
			}
			if m := caseOne.FindStringSubmatch(l); m != nil {
				n, _ := strconv.Atoi(m[1])
				pending = rune(n)
			} else if m := regexp.MustCompile(`^\s*return (\d+)`).FindStringSubmatch(l); m != nil && pending >= 0 {
				n, _ := strconv.Atoi(m[1])
				s0[pending] = n
				pending = -1
			}
		}
		// acttab: state -> accepted token type
		var accepts []int
		for _, m := range regexp.MustCompile(`Accept: (-?\d+),`).FindAllStringSubmatch(string(at), -1) {
			n, _ := strconv.Atoi(m[1])
			accepts = append(accepts, n)
		}
		// token.go: type -> name
		typ := map[string]int{}
		for _, m := range regexp.MustCompile(`"(t\d\d\d)":\s+(\d+),`).FindAllStringSubmatch(string(tk), -1) {
			n, _ := strconv.Atoi(m[2])
			typ[m[1]] = n
		}
		for k, l := range list {
			want, ok := goRune(l)
			if !ok {
				t.Fatalf("INFRA: generated an invalid rune literal %s", l)
			}
			col.Eval()
			st, ok := s0[want]
			if !ok {
				m := fmt.Sprintf("token t%03d : %s ; — Go reads the literal as %d (%U) but the generated lexer has no transition on that rune in its start state", k, l, want, want)
				rec := &ev.Recorder{Dir: os.Getenv("VERIF_REPLAY_OUT"), Prop: "C20", Engine: "inproc"}
				rec.Record([]byte(fmt.Sprintf(`{"lit":%q}`, l)), m)
				rec.Flush(col)
				t.Fatalf("%s", m)
			}
			name := fmt.Sprintf("t%03d", k)
			if st >= len(accepts) || accepts[st] != typ[name] {
				t.Fatalf("token %s : %s ; — rune %d leads to state %d which accepts token type %d, not %s (%d)", name, l, want, st, accepts[st], name, typ[name])
			}
			if want >= 0x80 || strings.Contains(l, `\`) {
				col.NonTrivial(ev.Hash("e2e", l), func() any { return map[string]any{"kind": "end-to-end", "literal": l, "code_point": want} })
			}
		}
	}
}

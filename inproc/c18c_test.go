package verifinproc

import (
	"fmt"
	"os"
	"strconv"
	"testing"

	"github.com/goccmack/gocc/internal/ast"
	"github.com/goccmack/gocc/internal/frontend/parser"
	"github.com/goccmack/gocc/internal/frontend/scanner"
	"github.com/goccmack/gocc/internal/frontend/token"
	"github.com/goccmack/gocc/internal/lexer/items"
	"github.com/goccmack/gocc/internal/parser/symbols"
	"verif.local/h/ev"
	"verif.local/h/gen"
)

// TestC18States: for generated lexical grammars the lexer item sets are built
// in process and EVERY state is checked against what the property says: the
// state's classes must be an exact disjoint partition of the literals and
// ranges its items expect.
func TestC18States(t *testing.T) {
	col := ev.New("C18")
	defer func() {
		if p := os.Getenv("VERIF_STATS"); p != "" {
			col.Write(p)
		}
	}()
	if os.Getenv("VERIF_REPLAY") != "" {
		return
	}
	n := 600
	if os.Getenv("VERIF_TIER") == "thorough" {
		n = 1500
	}
	seed, _ := strconv.Atoi(os.Getenv("VERIF_SEED"))
	shard, _ := strconv.Atoi(os.Getenv("VERIF_SHARD"))
	g := gen.LexGrammar(gen.DefaultLexOpts())
	for i := 0; i < n; i++ {
		gm := g.Example(seed*1000000 + shard*10000 + 5000 + i)
		src := gm.Source()
		sets, msg := lexerStates(src)
		if msg != "" {
			col.Class("grammar_rejected_or_panicked")
			continue
		}
		for si, set := range sets.List() {
			var expected []iv
			for _, it := range set.Items {
				switch s := it.ExpectedSymbol().(type) {
				case *ast.LexCharLit:
					expected = append(expected, iv{s.Val, s.Val})
				case *ast.LexCharRange:
					if s.From.Val <= s.To.Val {
						expected = append(expected, iv{s.From.Val, s.To.Val})
					}
				}
			}
			col.Eval()
			if m := checkPartition(expected, set.SymbolClasses.List()); m != "" {
				msg := fmt.Sprintf("grammar:\n%s\nlexer state S%d expects the literals/ranges %v, its classes are %v: %s", src, si, expected, set.SymbolClasses.List(), m)
				recordGrammarViolation(col, "C18", "states", src, msg)
				t.Fatalf("%s", msg)
			}
			if len(set.SymbolClasses.List()) >= 3 {
				col.NonTrivial(ev.Hash(src, fmt.Sprint(si)), func() any {
					return map[string]any{"kind": "lexer state", "grammar": src, "state": si, "expected": fmt.Sprint(expected), "classes": fmt.Sprint(set.SymbolClasses.List())}
				})
			}
		}
	}
}

// checkStatesOf validates every lexer state of one grammar text (used by replays).
func checkStatesOf(src string) string {
	sets, msg := lexerStates(src)
	if msg != "" {
		return ""
	}
	for si, set := range sets.List() {
		var expected []iv
		for _, it := range set.Items {
			switch s := it.ExpectedSymbol().(type) {
			case *ast.LexCharLit:
				expected = append(expected, iv{s.Val, s.Val})
			case *ast.LexCharRange:
				if s.From.Val <= s.To.Val {
					expected = append(expected, iv{s.From.Val, s.To.Val})
				}
			}
		}
		if m := checkPartition(expected, set.SymbolClasses.List()); m != "" {
			return fmt.Sprintf("grammar:\n%s\nlexer state S%d: %s", src, si, m)
		}
	}
	return ""
}

// lexerStates replicates main.go up to the lexer item sets.
func lexerStates(src string) (sets *items.ItemSets, msg string) {
	defer func() {
		if p := recover(); p != nil {
			msg = fmt.Sprint(p)
		}
	}()
	sc := &scanner.Scanner{}
	sc.Init([]byte(src), token.FRONTENDTokens)
	p := parser.NewParser(parser.ActionTable, parser.GotoTable, parser.ProductionsTable, token.FRONTENDTokens)
	res, err := p.Parse(sc)
	if err != nil {
		return nil, err.Error()
	}
	g := res.(*ast.Grammar)
	gs := symbols.NewSymbols(g)
	gs.Add(g.LexPart.TokenIds()...)
	g.LexPart.UpdateStringLitTokens(gs.ListStringLitSymbols())
	return items.GetItemSets(g.LexPart), ""
}

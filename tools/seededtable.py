#!/usr/bin/env python3
"""Prints the markdown table of seeded changes from /verif/seeded/*/meta.json."""
import json, glob, os
rows = []
for d in sorted(glob.glob('/verif/seeded/*/')):
    m = json.load(open(d + 'meta.json'))
    name = os.path.basename(d.rstrip('/'))
    desc = open(d + 'description.md').read().strip().split('\n')
    title = desc[0].lstrip('# ').strip()
    caught = ', '.join(m['caught_by']) if m['caught_by'] else '**not caught**'
    rows.append(f"| {name} | {m['breaks_property']} | {title[:150]} | {caught} | {m.get('note','')} |")
print("| seeded change | property | what it changes | caught by (quick tier) | note |")
print("|---|---|---|---|---|")
print('\n'.join(rows))

#!/usr/bin/env python3
"""Prints the markdown table of seeded changes from /verif/seeded/*/meta.json."""
import json, glob, os, re
rows = []
n = caught_own = caught_any = 0
for d in sorted(glob.glob('/verif/seeded/*/')):
    m = json.load(open(d + 'meta.json'))
    name = os.path.basename(d.rstrip('/'))
    desc = [l for l in open(d + 'description.md').read().strip().split('\n') if l.strip()]
    title = re.sub(r'^#*\s*(C\d\d\s*)?[Mm]utant\s*\d\s*[-—:–]*\s*', '', desc[0]).strip()
    own = m['breaks_property']
    cb = m['caught_by']
    n += 1
    caught_own += own in cb
    caught_any += bool(cb)
    caught = ', '.join(cb) if cb else '**not caught**'
    ran = ', '.join(sorted(m.get('check_runs', {})))
    rows.append(f"| {name} | {title[:140]} | {caught} | {ran} | {m.get('note','')} |")
print(f"{n} seeded changes kept; {caught_own} caught by the check of the property they were written against, {caught_any} by some check.\n")
print("| seeded change | what it changes | caught by (quick tier, seed 1) | checks run | note |")
print("|---|---|---|---|---|")
print('\n'.join(rows))

#!/usr/bin/env python3
"""Writes the table of seeded changes (tools/seededtable.py) into DESIGN.md
between the SEEDED_TABLE markers (or in place of the bare placeholder)."""
import subprocess, re
tab = subprocess.run(["python3", "/verif/tools/seededtable.py"], capture_output=True, text=True).stdout
p = "/verif/DESIGN.md"
s = open(p).read()
block = "<!-- SEEDED_TABLE_BEGIN -->\n" + tab.rstrip() + "\n<!-- SEEDED_TABLE_END -->"
if "<!-- SEEDED_TABLE_BEGIN -->" in s:
    s = re.sub(r"<!-- SEEDED_TABLE_BEGIN -->.*?<!-- SEEDED_TABLE_END -->", lambda m: block, s, flags=re.S)
else:
    s = s.replace("\nSEEDED_TABLE\n", "\n" + block + "\n")
open(p, "w").write(s)
print("table written:", tab.split("\n")[0])

#!/bin/sh
# usage: tools/at.sh <commit-ish> <ID> <tier> [--replay f]
# Runs a check against a scratch worktree of /repo at the given commit.
set -eu
C=$1; shift
D=$(mktemp -d /var/tmp/wt.XXXXXX)
git -C /repo worktree add -q --detach "$D" "$C"
trap 'git -C /repo worktree remove --force "$D" >/dev/null 2>&1 || true' EXIT
VERIF_REPO="$D" "$(dirname "$0")/../check.sh" "$@" && rc=0 || rc=$?
exit $rc

#!/bin/sh
# usage: tools/all.sh <tier> [ids…] — runs checks one after the other, prints one line per check
T=${1:-quick}; shift || true
IDS=${*:-C01 C02 C03 C04 C05 C06 C07 C08 C09 C10 C11 C12 C13 C14 C15 C16 C17 C18 C19 C20}
cd "$(dirname "$0")/.."
for id in $IDS; do
  s=$(date +%s)
  out=$(./check.sh $id $T 2>&1); rc=$?
  e=$(date +%s)
  echo "$id $T exit=$rc wall=$((e-s))s violations=$(echo "$out" | grep -c '^VIOLATION') known=$(echo "$out" | grep -c '^KNOWN-FINDING')"
  if [ $rc -ne 0 ]; then echo "$out" | tail -25; fi
done

#!/bin/bash
# usage: tools/sweep.sh <mut-root> <log> [PIDs…] — runs tools/mutant.sh for both
# seeded changes of every property of one round: the property's own check, and
# (file <mut-root>/extra.txt, lines "<PID> <N> <check ids…>") further checks.
R=$1; LOG=$2; shift 2
IDS=${*:-C01 C02 C03 C04 C05 C06 C07 C08 C09 C10 C11 C12 C13 C14 C15 C16 C17 C18 C19 C20}
here=$(cd "$(dirname "$0")" && pwd)
: > $LOG
for id in $IDS; do
  for n in 1 2; do
    extra=$(awk -v p=$id -v n=$n '$1==p && $2==n {for(i=3;i<=NF;i++) printf "%s ", $i}' $R/extra.txt 2>/dev/null)
    MUT_ROOT=$R VERIF_NOSHRINK=1 $here/mutant.sh $id $n $id $extra >> $LOG 2>&1
  done
done
echo SWEEP-DONE >> $LOG

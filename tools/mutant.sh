#!/bin/bash
# usage: tools/mutant.sh <PID> <N> [check ids…]
# Verifies seeded change N of property PID (delivered by a sub-agent in
# /tmp/mut/<PID>.work) in the scratch worktree /tmp/mut/<PID>, then runs the
# given checks (default: the property's own) against the changed tree.
set -u
PID=$1; N=$2; shift 2
CHECKS=${*:-$PID}
R=${MUT_ROOT:-/tmp/mut}; WT=$R/$PID; W=$R/$PID.work
export GOPROXY=off GOFLAGS=-mod=mod
unset GOTOOLCHAIN GOSUMDB
cd $WT || exit 2
git checkout -q -- . ; git clean -fdq
echo "== $PID mutant$N: demo on the unmodified tree"
echo "   checks from /verif commit $(git -C ${VERIF_ROOT:-/verif} rev-parse --short HEAD), gocc base $(git rev-parse --short HEAD)"
( cd $W/demo$N && bash ./run.sh ) >$W/demo$N.clean.log 2>&1; c=$?
echo "   exit $c (expected 0)"
git apply $W/mutant$N.diff || { echo "patch does not apply"; exit 2; }
echo "== builds and existing tests with the change"
go build ./... || { echo "DOES NOT BUILD"; git checkout -q -- .; exit 2; }
go test -vet=off -count=1 ./... 2>&1 | grep -E '^(--- FAIL|FAIL|ok)' | grep -v '^ok' | tr '\n' ' '; echo
echo "== demo with the change"
( cd $W/demo$N && bash ./run.sh ) >$W/demo$N.mut.log 2>&1; m=$?
echo "   exit $m (expected non-zero)"
for id in $CHECKS; do
  echo "== check $id quick against the changed tree"
  s=$(date +%s)
  VERIF_EVIDENCE_DIR=$W/evidence VERIF_REPO=$WT ${VERIF_ROOT:-/verif}/check.sh $id quick > $W/check$N.$id.log 2>&1; r=$?
  e=$(date +%s)
  echo "   $id exit=$r wall=$((e-s))s violations=$(grep -c '^VIOLATION' $W/check$N.$id.log)"
  grep -A6 -m1 '^VIOLATION' $W/check$N.$id.log | cut -c1-220
done
git checkout -q -- . ; git clean -fdq

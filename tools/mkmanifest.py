#!/usr/bin/env python3
"""Regenerates /verif/MANIFEST.json from the table below (kept next to the
driver's own table in h/cmd/verif/checks.go)."""
import json, os, sys

CLAIMED = {
 "C04": dict(engine="E-exec",
   technique="property-based testing (rapid): generated grammars run through the gocc binary, differential against an independent canonical LR(1) construction",
   text="Exploration: random syntax grammars (families known to be LR(1), unconstrained random ones, grammars with unreachable/unproductive nonterminals) are run through the gocc binary with and without -a; the announced conflict count and the exit status are compared with an independent textbook canonical LR(1) construction in the harness. Finds disagreements on small grammars quickly; cannot show absence for grammars beyond the generated sizes.",
   note="Trusted: the harness's own LR(1) construction (cross-checked against its Earley recogniser), rapid, the Go toolchain. Grammar sizes bounded.",
   design="5/C04"),
}

ALL = ["C%02d" % i for i in range(1, 21)]

def main():
    checks = []
    for pid in ALL:
        if pid not in CLAIMED:
            continue
        c = CLAIMED[pid]
        checks.append({
            "property_id": pid,
            "quick_cmd": "./check.sh %s quick" % pid,
            "thorough_cmd": "./check.sh %s thorough" % pid,
            "evidence_file": "evidence/%s.json" % pid,
            "replay_cmd_template": "./check.sh %s quick --replay {path}" % pid,
            "engine": c["engine"],
            "level_claimed": {"category": "exploration", "text": c["text"], "design_ref": c["design"]},
            "level_note": c["note"],
            "technique": c["technique"],
        })
    na = [{"property_id": p, "reason": "check not built yet in this session (planned, see DESIGN.md section 5); not claimed until it exists and is validated"}
          for p in ALL if p not in CLAIMED]
    m = {
        "version": 1,
        "setup_cmd": "./setup.sh",
        "hooks": {
            "guard": "verif",
            "enable": "no hooks are needed: every observation point is reachable through the gocc binary, the generated packages or exported internal API (go build -tags verif would enable them if there were any)",
            "baseline_off_cmd": "cd /repo && GOPROXY=off GOFLAGS=-mod=mod go test -vet=off -count=1 ./...",
            "source_commits": [],
            "add_only": True,
        },
        "engines": [
            {"name": "E-exec", "path": "h/props", "serves_properties": ["C04", "C09", "C11", "C13", "C14", "C19"], "kind_free_text": "rapid properties that run the gocc binary built from /repo's working tree as a child process"},
            {"name": "E-inproc", "path": "inproc", "serves_properties": ["C15", "C18", "C20"], "kind_free_text": "rapid properties and enumerations calling gocc's internal packages directly"},
            {"name": "E-lexbatch", "path": "h/batch", "serves_properties": ["C01", "C08", "C16", "C17"], "kind_free_text": "batches of generated lexers compiled once, rapid inputs inside the batch binary, reference = macro-expanded Thompson NFA"},
            {"name": "E-parsebatch", "path": "h/batch", "serves_properties": ["C02", "C03", "C05", "C06", "C07", "C10", "C12", "C16", "C17"], "kind_free_text": "batches of generated parsers compiled once, rapid inputs inside the batch binary, references = Earley, canonical LR(1), derivation trees"},
        ],
        "checks": checks,
        "not_applicable": na,
        "notes": "All checks are property-based tests / fuzzing (pgregory.net/rapid v1.3.0, native go fuzzing in some thorough tiers). VERIF_SEED selects the pseudo-random stream. Exit 0 held / 1 violation / 2 infrastructure trouble.",
    }
    json.dump(m, open(os.path.join(os.path.dirname(__file__), "..", "MANIFEST.json"), "w"), indent=1)
    print("wrote MANIFEST.json with", len(checks), "checks")

main()

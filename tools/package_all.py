#!/usr/bin/env python3
"""usage: package_all.py <round> <mut-root> <eval-log>…
Packages every seeded change of one round that the evaluation logs show as
verified (demo passes on the unchanged tree, fails on the changed one; the
change builds; the existing suite fails only where the unchanged tree fails)
into /verif/seeded/<PID>-r<round>m<N>/: patch.diff, demo/, description.md,
meta.json. Which checks caught it is read from the logs (exit 1 and a
VIOLATION line); later logs override earlier ones for the same check."""
import json, os, re, shutil, sys, glob

rnd, root, logs = sys.argv[1], sys.argv[2], sys.argv[3:]
base = os.environ.get("MUT_BASE", "7b7da48")
res = {}
for f in logs:
    txt = open(f, errors='replace').read()
    blocks = re.split(r'^== (C\d\d) mutant(\d): demo on the unmodified tree\n', txt, flags=re.M)
    for i in range(1, len(blocks), 3):
        pid, n, body = blocks[i], blocks[i+1], blocks[i+2]
        clean = re.search(r'exit (\d+) \(expected 0\)', body)
        mut = re.search(r'exit (\d+) \(expected non-zero\)', body)
        tests = re.search(r'== builds and existing tests with the change\n(.*)\n', body)
        r = res.setdefault((pid, n), {"checks": {}})
        vc = re.search(r'checks from /verif commit (\w+), gocc base (\w+)', body)
        if vc:
            r["verif_commit"], r["gocc_base"] = vc.group(1), vc.group(2)
        else:
            r.setdefault("verif_commit", os.environ.get("VERIF_COMMIT", "?"))
        r["clean"] = int(clean.group(1)) if clean else None
        r["mut"] = int(mut.group(1)) if mut else None
        t = tests.group(1) if tests else "?"
        r["suite_ok"] = t.count('FAIL:') == 1 and 'TestEmptyKeyword' in t
        r["suite"] = t.strip()
        r["builds"] = 'DOES NOT BUILD' not in body and 'patch does not apply' not in body
        for c, e, w, v in re.findall(r'   (C\d\d) exit=(\d+) wall=(\d+)s violations=(\d+)', body):
            r["checks"][c] = {"exit": int(e), "violations": int(v), "wall_s": int(w)}

def ign(d, names):
    out = []
    for x in names:
        fp = os.path.join(d, x)
        if x in ("out", "gocc", "gen", "generated", "o") and os.path.isdir(fp) or x == "gocc" or x.endswith((".test", ".bin", ".exe")) or x.startswith("gocc."):
            out.append(x)
        elif os.path.isdir(fp) and os.path.isdir(os.path.join(fp, "token")) and os.path.isdir(os.path.join(fp, "util")):
            out.append(x)  # packages a demo run generated
        elif os.path.isfile(fp) and (os.path.getsize(fp) > 300000 or open(fp, 'rb').read(4) == b'\x7fELF'):
            out.append(x)
    return out

for (pid, n), r in sorted(res.items()):
    w = f"{root}/{pid}.work"
    name = f"{pid}-r{rnd}m{n}"
    if not (r["clean"] == 0 and r["mut"] not in (0, None) and r["suite_ok"] and r["builds"]):
        print("SKIP", name, {k: r[k] for k in ("clean", "mut", "suite_ok", "builds")})
        continue
    dst = f"/verif/seeded/{name}"
    if os.path.exists(dst):
        shutil.rmtree(dst)
    os.makedirs(dst)
    shutil.copy(f"{w}/mutant{n}.diff", f"{dst}/patch.diff")
    shutil.copytree(f"{w}/demo{n}", f"{dst}/demo", ignore=ign)
    desc = open(f"{w}/mutant{n}.md").read()
    open(f"{dst}/description.md", "w").write(desc)
    m = re.search(r'(Exposed by|It needs|Needs|Trigger|What exposes it|Manifest)', desc)
    needs = desc[m.start():] if m else desc
    cut = re.search(r'\n\s*\n|\n(Not exposed|Ordinary use|Why ordinary|Without|Demo|Not shown|What hides)', needs)
    needs = (needs[:cut.start()] if cut else needs).strip()[:1200]
    caught = sorted(c for c, x in r["checks"].items() if x["exit"] == 1 and x["violations"] > 0)
    first = {}
    for c in caught:
        lf = f"{w}/check{n}.{c}.log"
        if os.path.exists(lf):
            t = open(lf, errors='replace').read()
            mm = re.search(r'^VIOLATION.*\n((?:    .*\n){0,40})', t, re.M)
            if mm:
                lines = mm.group(0).split('\n')
                first[c] = '\n'.join(l[:300] for l in lines)[-1800:]
    meta = {
        "breaks_property": pid,
        "round": int(rnd),
        "base_commit": base,
        "change": "patch.diff (git apply in a worktree of /repo at base_commit)",
        "needs_to_manifest": needs,
        "verified": {
            "builds": True,
            "existing_suite": "fails only internal/test/t2 TestEmptyKeyword, exactly as the unchanged tree does: " + r["suite"][:200],
            "demo_unchanged_tree_exit": r["clean"],
            "demo_changed_tree_exit": r["mut"],
        },
        "what_was_run": f"MUT_ROOT={root} tools/mutant.sh {pid} {n} <checks>: scratch worktree of /repo at base_commit; demo/run.sh on the unchanged tree; git apply patch.diff; go build ./...; go test -vet=off -count=1 ./...; demo/run.sh on the changed tree; then VERIF_REPO=<worktree> ./check.sh <ID> quick for each check below (VERIF_SEED=1, shrinking off); worktree reset afterwards",
        "verif_commit_of_the_last_run": r.get("verif_commit", "?"),
        "caught_by": caught,
        "check_runs": r["checks"],
        "first_violation": first,
    }
    json.dump(meta, open(f"{dst}/meta.json", "w"), indent=1, ensure_ascii=False)
    print("kept", name, "caught_by", caught or "NONE", "| ran", sorted(r["checks"]))

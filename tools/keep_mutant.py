#!/usr/bin/env python3
"""usage: keep_mutant.py <PID> <N> <caught-by: comma list or 'none'> [note…]
Copies a verified seeded change from /tmp/mut/<PID>.work into /verif/seeded/<pid>-m<N>/
(patch.diff, demo/, description) and writes meta.json from the evaluation logs."""
import json, os, re, shutil, sys, glob

pid, n, caught = sys.argv[1], sys.argv[2], sys.argv[3]
note = " ".join(sys.argv[4:])
root = os.environ.get("MUT_ROOT", "/tmp/mut")
w = f"{root}/{pid}.work"
dst = f"/verif/seeded/{pid}-m{n}"
os.makedirs(dst, exist_ok=True)
shutil.copy(f"{w}/mutant{n}.diff", f"{dst}/patch.diff")
if os.path.exists(f"{dst}/demo"):
    shutil.rmtree(dst + "/demo")
def ign(d, names):
    return [x for x in names if x in ("out", "gocc", "gen", "generated") or x.endswith(".test") or x.startswith("gocc.")]
shutil.copytree(f"{w}/demo{n}", f"{dst}/demo", ignore=ign)
desc = open(f"{w}/mutant{n}.md").read()
open(f"{dst}/description.md", "w").write(desc)
runs = {}
for f in sorted(glob.glob(f"{w}/check{n}.*.log")):
    cid = f.split(".")[-2]
    txt = open(f, errors="replace").read()
    runs[cid] = {"violations": len(re.findall(r"^VIOLATION", txt, re.M)),
                 "first": (re.search(r"^VIOLATION.*\n((?:    .*\n){0,8})", txt, re.M).group(0)[:900] if "VIOLATION" in txt else "")}
meta = {
    "breaks_property": pid,
    "change": f"patch.diff (git apply in a worktree of /repo at the commit the checks were validated on)",
    "needs_to_manifest": desc.strip().split("\n")[-6:],
    "verified": {
        "builds": True,
        "existing_suite": "only internal/test/t2 TestEmptyKeyword fails, as on the unchanged tree",
        "demo_unchanged_tree_exit": 0,
        "demo_changed_tree_exit": "non-zero",
        "how": f"tools/mutant.sh {pid} {n} (applies the patch in a scratch worktree, go build ./..., go test -vet=off ./..., demo/run.sh both ways, then VERIF_REPO=<worktree> ./check.sh <ID> quick)",
    },
    "caught_by": [] if caught == "none" else caught.split(","),
    "check_runs": runs,
    "note": note,
}
json.dump(meta, open(f"{dst}/meta.json", "w"), indent=1, ensure_ascii=False)
print("kept", dst, "caught_by", meta["caught_by"])

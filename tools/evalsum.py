#!/usr/bin/env python3
import re,sys,glob
for f in sys.argv[1:]:
    txt=open(f,errors='replace').read()
    blocks=re.split(r'^== (C\d\d) mutant(\d): demo on the unmodified tree\n', txt, flags=re.M)
    for i in range(1,len(blocks),3):
        pid,n,body=blocks[i],blocks[i+1],blocks[i+2]
        clean=re.search(r'exit (\d+) \(expected 0\)',body)
        mut=re.search(r'exit (\d+) \(expected non-zero\)',body)
        tests=re.search(r'== builds and existing tests with the change\n(.*)\n',body)
        checks=re.findall(r'   (C\d\d) exit=(\d+) wall=(\d+)s violations=(\d+)',body)
        first=re.search(r'^VIOLATION.*\n((?:    .*\n){0,3})',body,flags=re.M)
        print(pid,'m'+n,'demo clean/mut', clean.group(1) if clean else '?', mut.group(1) if mut else '?', '| suite:', 'only t2' if tests and tests.group(1).count('FAIL:')==1 and 'TestEmptyKeyword' in tests.group(1) else (tests.group(1)[:60] if tests else '?'), '|', ' '.join(f'{c}:exit{e}/{v}viol/{w}s' for c,e,w,v in checks))
        if first: print('      ', first.group(0).replace('\n',' ')[:230])

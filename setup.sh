#!/bin/sh
# Builds the driver and warms the Go build cache, offline.
set -eu
cd "$(dirname "$0")"
export GOPROXY=off GOFLAGS=-mod=mod
unset GOTOOLCHAIN GOSUMDB 2>/dev/null || true
mkdir -p bin evidence replays
( cd h && go build -o ../bin/verif ./cmd/verif && go vet ./... >/dev/null 2>&1 || true )
( cd h && go test -count=1 ./cfg/ ./lexnfa/ ./spec/ -rapid.checks=400 -rapid.nofailfile )
echo setup ok
